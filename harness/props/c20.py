"""C20 — a failed or refused write never damages existing results.

Correspondence = systematic fault injection on the real code, no source hook:

* kind "write": a real `AntismashResults` (real `Record`s, stub `ModuleResults`) whose conversions
  raise / return something orjson cannot write at a chosen position — every position of every
  n x m grid (n, m <= 3 quick, <= 4 thorough), every fault type, plus random multi-fault inputs —
  is written with the real `write_to_file` / `dump_records` into a real temporary directory whose
  target file (and bystander files) hold known bytes.  `builtins.open`, `os.remove`, `os.mkdir` and
  the root logger are wrapped to record the effect trace.
* kind "prepare": the real `prepare_output_directory` on every subset of a family of directory
  entries x run mode x directory-name form.
* kind "pipeline": the real `_run_antismash` from `read_data` on, with the analysis stages stubbed,
  the real `prepare_output_directory`, `canonical_base_filename` and `write_to_file`.

The Lean driver runs the effect machine on the same case and evaluates the executable spec on the
implementation's own (trace, exception, final directory).
"""
from __future__ import annotations

import builtins
import itertools
import json as std_json
import logging
import os
import random
import shutil
import subprocess
import sys
import tempfile
from typing import Any, Dict, Iterator, List, Optional, Tuple
from unittest import mock

from ..framework import Judgement, Property

EXCS = {"TypeError": TypeError, "ValueError": ValueError, "KeyError": KeyError,
        "RuntimeError": RuntimeError, "AttributeError": AttributeError, "IndexError": IndexError,
        "ZeroDivisionError": ZeroDivisionError, "NotImplementedError": NotImplementedError}
STREAM = "<stream>"
MAX64 = 2 ** 64 - 1
MIN64 = -2 ** 63


def exn_name(exc: BaseException) -> str:
    """the small enum of exception kinds: TypeError subclasses (orjson's) count as TypeError"""
    if isinstance(exc, TypeError):
        return "TypeError"
    return type(exc).__name__


# ----------------------------------------------------------------------------- token streams

def tokens(value: Any) -> List[Any]:
    """parsed JSON -> the token stream the Lean model renders"""
    if value is None:
        return ["null"]
    if isinstance(value, bool):
        return [["bool", value]]
    if isinstance(value, int):
        return [["int", value]]
    if isinstance(value, str):
        return [["str", value]]
    if isinstance(value, list):
        out: List[Any] = ["["]
        for v in value:
            out.extend(tokens(v))
        out.append("]")
        return out
    if isinstance(value, dict):
        out = ["{"]
        for k, v in value.items():
            out.append(["key", k])
            out.extend(tokens(v))
        out.append("}")
        return out
    return [["raw", f"<unexpected {type(value).__name__}>"]]


def doc_tokens(text: str) -> Optional[List[Any]]:
    """the modelled part of a written results document, None if it is not one"""
    try:
        data = std_json.loads(text)
    except ValueError:
        return None
    if isinstance(data, dict):
        if not isinstance(data.get("records"), list) or "timings" not in data \
                or not all(isinstance(r, dict) and isinstance(r.get("modules"), dict) for r in data["records"]):
            return None
        for key in ("version", "input_file", "taxon", "schema"):
            if key not in data:
                return None
        out: List[Any] = ["{", ["key", "records"], "["]
        for rec in data["records"]:
            out.extend(tokens(rec["modules"]))
        out += ["]", ["key", "timings"]] + tokens(data["timings"]) + ["}"]
        return out
    if isinstance(data, list):
        if not all(isinstance(r, dict) and isinstance(r.get("modules"), dict) for r in data):
            return None
        out = ["["]
        for rec in data:
            out.extend(tokens(rec["modules"]))
        out.append("]")
        return out
    return None


def content_tokens(text: str, old: Optional[str]) -> List[Any]:
    """canonical content of a file after the run, relative to what it held before"""
    if old is not None and text == old:
        return [["raw", old]] if old else []
    if not text:
        return []
    doc = doc_tokens(text)
    if doc is not None:
        return doc
    if old and text.startswith(old):
        doc = doc_tokens(text[len(old):])
        if doc is not None:
            return [["raw", old]] + doc
    return [["raw", "<garbage>" + text[:60]]]


def raw_of(content: List[Any]) -> str:
    """initial contents are `[]` or `[["raw", s]]`"""
    return "".join(t[1] for t in content if isinstance(t, list) and t[0] == "raw")


# ----------------------------------------------------------------------------- stub objects

class _Recorder:
    """the effect trace of one call into the real code"""
    def __init__(self, root: str, outdir: str) -> None:
        self.root = os.path.realpath(root)
        self.outdir = outdir
        self.events: List[Any] = []

    def rel(self, path: Any) -> Optional[str]:
        if not isinstance(path, (str, bytes, os.PathLike)):
            return None
        full = os.path.realpath(os.path.abspath(os.fsdecode(path)))
        if full != self.root and not full.startswith(self.root + os.sep):
            return None
        return os.path.relpath(full, os.path.realpath(self.outdir))


class _FileProxy:
    """logs `write` on a file the code under test opened itself; closed when dropped"""
    def __init__(self, handle: Any, name: str, rec: _Recorder) -> None:
        self._handle = handle
        self._name = name
        self._rec = rec

    def write(self, text: Any) -> Any:
        self._rec.events.append(["write", self._name])
        return self._handle.write(text)

    def __getattr__(self, attr: str) -> Any:
        return getattr(self._handle, attr)

    def __enter__(self) -> "_FileProxy":
        return self

    def __exit__(self, *args: Any) -> None:
        self._handle.close()


class _Stream:
    """an already open text stream handed to the code under test"""
    def __init__(self, initial: str, rec: _Recorder) -> None:
        self.text = initial
        self._rec = rec

    def write(self, text: str) -> int:
        self._rec.events.append(["write", STREAM])
        self.text += text
        return len(text)


class _Opaque:
    """no conversion method at all"""


def _make_classes() -> Dict[str, Any]:
    from antismash.common.module_results import ModuleResults
    from antismash.common.secmet import Record
    from antismash.common.secmet.record import Seq

    class Conv:
        def __init__(self, value: Any) -> None:
            self.value = value

        def to_json(self) -> Any:
            return self.value

    class ConvRaises:
        def __init__(self, exc: str) -> None:
            self.exc = exc

        def to_json(self) -> Any:
            raise EXCS[self.exc]("injected nested fault")

    class Dunder:
        def __init__(self, value: Any) -> None:
            self.value = value

        def __json__(self) -> Any:
            return self.value

    class DunderRaises:
        def __init__(self, exc: str) -> None:
            self.exc = exc

        def __json__(self) -> Any:
            raise EXCS[self.exc]("injected nested fault")

    class Both:
        def __init__(self, first: Any, second: Any) -> None:
            self.first = first
            self.second = second

        def to_json(self) -> Any:
            return self.first

        def __json__(self) -> Any:
            return self.second

    class SeqConv(Seq):
        def to_json(self) -> Any:
            return self.other  # pylint: disable=no-member

    class StubModule(ModuleResults):
        def __init__(self, rec: _Recorder, i: int, j: int, spec: List[Any]) -> None:
            super().__init__(f"r{i}")
            self.rec, self.i, self.j, self.spec = rec, i, j, spec

        def __len__(self) -> int:
            # results classes with `__len__` are falsy when empty; nothing may depend on that
            return 1 if mod_truthy(self.spec) else 0

        def to_json(self) -> Any:
            self.rec.events.append(["mod", self.i, self.j])
            if self.spec[0] == "raises":
                raise EXCS[self.spec[-1]]("injected module fault")
            return build_val(self.spec[-1])

        def add_to_record(self, record: Any) -> None:
            pass

        @staticmethod
        def from_json(json: Any, record: Any) -> None:
            return None

    class StubRecord(Record):
        def arm(self, rec: _Recorder, i: int, fault: Optional[str]) -> "StubRecord":
            self._c20 = (rec, i, fault)
            return self

        def to_biopython(self) -> Any:
            rec, i, fault = self._c20
            rec.events.append(["rec", i])
            if fault:
                raise EXCS[fault]("injected record fault")
            return super().to_biopython()

    return {"Conv": Conv, "ConvRaises": ConvRaises, "Dunder": Dunder, "DunderRaises": DunderRaises,
            "Both": Both, "SeqConv": SeqConv, "StubModule": StubModule, "StubRecord": StubRecord, "Seq": Seq}


_CLASSES: Dict[str, Any] = {}


def classes() -> Dict[str, Any]:
    if not _CLASSES:
        _CLASSES.update(_make_classes())
    return _CLASSES


def build_val(v: List[Any]) -> Any:
    """JSON form of a `PyVal` -> the Python object"""
    cls = classes()
    tag = v[0]
    if tag == "none":
        return None
    if tag in ("bool", "int", "str"):
        return v[1]
    if tag == "list":
        return [build_val(x) for x in v[1]]
    if tag == "dict":
        return {k: build_val(x) for k, x in v[1]}
    if tag == "seq":
        return cls["Seq"](v[1])
    if tag == "seqconv":
        obj = cls["SeqConv"](v[1])
        obj.other = build_val(v[2])
        return obj
    if tag == "conv":
        return cls["Conv"](build_val(v[1]))
    if tag == "convraises":
        return cls["ConvRaises"](v[1])
    if tag == "dunder":
        return cls["Dunder"](build_val(v[1]))
    if tag == "dunderraises":
        return cls["DunderRaises"](v[1])
    if tag == "both":
        return cls["Both"](build_val(v[1]), build_val(v[2]))
    if tag == "opaque":
        return _Opaque()
    raise ValueError(f"bad value tag {tag}")


def mod_truthy(spec: List[Any]) -> bool:
    """`["mod", truthy, v]` / `["raises", truthy, e]`; the two-element forms are truthy"""
    return True if len(spec) == 2 else bool(spec[1])


def build_raw(spec: List[Any]) -> Any:
    """`["invalid", raw]`: a value of the wrong type; `["invalid"]` is a non-empty dict"""
    if len(spec) == 1:
        return {"left": "over"}
    tag, arg = spec[1]
    if tag == "dict":
        return {f"k{i}": i for i in range(arg)}
    if tag == "list":
        return list(range(arg))
    if tag in ("str", "int", "bool"):
        return arg
    raise ValueError(f"bad raw tag {tag}")


def val_faulty(v: List[Any]) -> bool:
    tag = v[0]
    if tag == "int":
        return not MIN64 <= v[1] <= MAX64
    if tag == "list":
        return any(val_faulty(x) for x in v[1])
    if tag == "dict":
        return any(val_faulty(x) for _, x in v[1])
    if tag in ("conv", "dunder", "both"):
        return val_faulty(v[1])
    return tag in ("convraises", "dunderraises", "opaque")


def build_results(case_results: Dict[str, Any], rec: _Recorder) -> Any:
    """the real `AntismashResults` for the JSON form of `Results`"""
    from antismash.common.serialiser import AntismashResults
    cls = classes()
    records = []
    descriptions = case_results.get("descriptions") or []
    for i, fault in enumerate(case_results["records"]):
        description = descriptions[i] if i < len(descriptions) and descriptions[i] else f"record {i}"
        records.append(cls["StubRecord"]("ACGTTGCA", id=f"r{i}", name=f"r{i}", description=description)
                       .arm(rec, i, fault))
    results = []
    for i, mod_dict in enumerate(case_results["results"]):
        built: Dict[str, Any] = {}
        for j, (name, spec) in enumerate(mod_dict):
            if spec[0] == "none":
                built[name] = None
            elif spec[0] == "invalid":
                built[name] = build_raw(spec)
            else:
                built[name] = cls["StubModule"](rec, i, j, spec)
        results.append(built)
    return AntismashResults("input.gbk", records, results, "0.0.0",
                            timings=build_val(case_results["timings"]))


# ----------------------------------------------------------------------------- effect capture

class _ErrorCounter(logging.Handler):
    def __init__(self, rec: _Recorder) -> None:
        super().__init__(level=logging.ERROR)
        self.rec = rec

    def emit(self, record: logging.LogRecord) -> None:
        if record.levelno >= logging.ERROR:
            self.rec.events.append("logerr")


class _Capture:
    """wraps open / os.remove / os.mkdir / the root logger for the duration of one call"""
    def __init__(self, rec: _Recorder) -> None:
        self.rec = rec
        self.real_open = builtins.open
        self.real_remove = os.remove
        self.real_mkdir = os.mkdir
        self.handler = _ErrorCounter(rec)

    def __enter__(self) -> "_Capture":
        rec, real_open, real_remove, real_mkdir = self.rec, self.real_open, self.real_remove, self.real_mkdir

        def open_(file: Any, mode: str = "r", *args: Any, **kwargs: Any) -> Any:
            name = rec.rel(file)
            if name is None or not any(c in mode for c in "wax+"):
                return real_open(file, mode, *args, **kwargs)
            rec.events.append(["open", name] if mode in ("w", "wt") else ["open", name + ":" + mode])
            return _FileProxy(real_open(file, mode, *args, **kwargs), name, rec)

        def remove_(path: Any, *args: Any, **kwargs: Any) -> None:
            name = rec.rel(path)
            if name is not None:
                rec.events.append(["remove", name])
            real_remove(path, *args, **kwargs)

        def mkdir_(path: Any, *args: Any, **kwargs: Any) -> None:
            name = rec.rel(path)
            if name is not None:
                rec.events.append("mkdir" if name == "." else ["mkdir", name])
            real_mkdir(path, *args, **kwargs)

        builtins.open = open_
        os.remove = remove_
        os.unlink = remove_
        os.mkdir = mkdir_
        self.root_logger = logging.getLogger()
        self.root_logger.addHandler(self.handler)
        return self

    def __exit__(self, *args: Any) -> None:
        builtins.open = self.real_open
        os.remove = self.real_remove
        os.unlink = self.real_remove
        os.mkdir = self.real_mkdir
        self.root_logger.removeHandler(self.handler)


def populate(path: str, entries: List[List[Any]]) -> None:
    for name, is_dir, content in entries:
        if name == STREAM:
            continue
        full = os.path.join(path, name)
        if is_dir:
            os.mkdir(full)
            with open(os.path.join(full, "kept.txt"), "w", encoding="utf-8") as handle:
                handle.write("inner")
        else:
            with open(full, "w", encoding="utf-8") as handle:
                handle.write(raw_of(content))


def read_back(path: str, before: List[List[Any]], stream: Optional[_Stream],
              logname: Optional[str] = None, created: Optional[List[str]] = None) -> List[List[Any]]:
    """the listing afterwards: surviving old entries in their old order, then new ones by name;
    `logname`: the entry the run itself logs to (or into): its text is only known to grow"""
    old = {name: (is_dir, content) for name, is_dir, content in before}
    present = set(os.listdir(path))
    out: List[List[Any]] = []

    def entry(name: str) -> List[Any]:
        full = os.path.join(path, name)
        if os.path.isdir(full):
            inner = os.path.join(full, "kept.txt")
            intact = name not in old or (os.path.exists(inner) and open(inner, encoding="utf-8").read() == "inner"
                                         and (os.listdir(full) == ["kept.txt"] or name == logname))
            return [name, True, [] if intact else [["raw", "<directory damaged>"]]]
        with open(full, encoding="utf-8", errors="replace") as handle:
            text = handle.read()
        prev = raw_of(old[name][1]) if name in old and not old[name][0] else None
        if name in ("profiling_results", "profiling_results.bin") and text != (prev or ""):
            return [name, False, [["raw", "<profile report>" if name == "profiling_results" else "<profile data>"]]]
        if name == logname and text != (prev or "") and text.startswith(prev or ""):
            return [name, False, ([["raw", prev]] if prev else []) + [["raw", "<log>"]]]
        return [name, False, content_tokens(text, prev)]

    for name, _, content in before:
        if name == STREAM:
            assert stream is not None
            out.append([name, False, content_tokens(stream.text, raw_of(content))])
        elif name in present:
            out.append(entry(name))
    order = {n: k for k, n in reversed(list(enumerate(created or [])))}
    # new entries in the order they were created (logging creates its file first)
    for name in sorted(present - set(old), key=lambda n: (n != logname, order.get(n, len(order)), n)):
        out.append(entry(name))
    return out


def canon_trace(trace: List[Any]) -> List[Any]:
    """runs of `remove` events are sets (glob order is the file system's)"""
    out: List[Any] = []
    run: List[Any] = []
    for ev in trace:
        if isinstance(ev, list) and ev[0] == "remove":
            run.append(ev)
            continue
        out.extend(sorted(run))
        run = []
        out.append(ev)
    out.extend(sorted(run))
    return out


# ----------------------------------------------------------------------------- the property

GOOD: List[Any] = ["dict", [["score", ["int", 7]], ["hits", ["list", [["str", "a"], ["none"]]]]]]
DIR_NAMES = ["out", "out[1]", "res*lt", "q?", "with space", "trail/"]


class C20(Property):
    ID = "C20"
    SHAPE = [("antismash/common/serialiser.py", "AntismashResults.write_to_file"),
             ("antismash/common/serialiser.py", "AntismashResults.to_json"),
             ("antismash/common/serialiser.py", "dump_records"),
             ("antismash/common/json.py", "dumps"),
             ("antismash/common/json.py", "_base_convertor"),
             ("antismash/common/json.py", "_convert_std_to_orson"),
             ("antismash/main.py", "prepare_output_directory"),
             ("antismash/main.py", "_ignore_patterns"),
             ("antismash/main.py", "canonical_base_filename"),
             ("antismash/main.py", "_run_antismash"),
             ("antismash/main.py", "run_antismash"),
             ("antismash/main.py", "write_profiling_results"),
             ("antismash/common/logs.py", "changed_logging"),
             ("antismash/common/serialiser.py", "AntismashResults.from_file"),
             ("antismash/common/serialiser.py", "AntismashResults.SCHEMA_VERSION"),
             ("antismash/common/serialiser.py", "AntismashResults.COMPATIBLE_SCHEMAS"),
             ("antismash/main.py", "read_data"),
             ("antismash/config/args.py", "FullPathAction")]
    RULE = ("systematic fault injection: every (record, module) position of every n x m grid (n,m <= 3 quick, "
            "<= 4 thorough) x every fault type (to_json raises TypeError/ValueError/KeyError, raising falsy results "
            "object, wrong-type value that is a non-empty dict / {} / [] / '' / 0 / False, object without conversion, "
            "nested failing conversion, out-of-range integer, record-level failure, results list too short, "
            "unserialisable timings, no fault), every other good results object falsy (__len__ == 0), x "
            "{write_to_file, dump_records} x handle {existing file, missing file, open stream, None}, with bystander "
            "files; random multi-fault inputs; prepare_output_directory on every subset of 10 entry kinds (incl. a "
            "file whose name is a prefix of the log file's) x {fresh, reuse, .JSON, .json.bz2} x {directory, missing, "
            "plain file} x directory-name forms incl. glob metacharacters; log-name family: entries whose names are "
            "prefixes/extensions of the log file's name, directories above the log file, 5 spellings of the log path, "
            "relative arguments and working directories, no log file with the cwd inside the directory; posixpath "
            "model vs os.path on edge and random strings; derived names (empty --output-dir, --output-basename, "
            "compressed / hidden / dotted inputs); reuse round trips through a real results file and the real "
            "read_data (every position x 14 JSON values); run_antismash with the real changed_logging and the real "
            "command-line parser (log file inside / below / outside the directory) x directory states (incl. foreign "
            "files called profiling_results) x results x 11 option sets over --profiling / --debug / --verbose / "
            "--list-plugins / --check-prereqs / failing prerequisites / invalid options / no module; the real read_data / "
            "from_file on no input, empty / non-JSON reuse files and results documents of schema 0-7 or without the key; "
            "write_to_file / dump_records in a second interpreter whose default text encoding is ASCII, non-ASCII "
            "characters at every record/module position; _run_antismash on directory x fault-position products; non-trivial = a fault with pre-existing target "
            "content, a non-empty existing directory, or any pipeline run")
    TRUSTED = ["POSIX semantics of open(path, 'w') (truncate/create) and of file objects being flushed when dropped "
               "(CPython reference counting) are taken as given",
               "orjson: serialisation order, native types, `default` protocol; only its observable verdict "
               "(bytes or TypeError) is modelled, incl. the 64-bit integer range",
               "record-level JSON (`record_to_json`, `gather_record_areas`, `record_from_json`) is exercised but only "
               "its failure is modelled; `AntismashResults.from_file` is modelled only as 'modules come back as raw JSON'",
               "partial writes after a successful conversion (disk full, interrupted write) are outside the fault model",
               "posixpath (join/normpath/abspath/basename/splitext) is modelled and compared with the real functions; "
               "symbolic links are not (abspath is lexical, as in the code)",
               "logging: only the effects of changed_logging inside the output directory are modelled (directory "
               "creation, the log file created/grown); the log text is a single opaque token",
               "not generated: dict keys that are not strings, floats, directories "
               "named like region GenBank files, a log file path that is an existing directory or lies below a plain "
               "file, an --output-basename containing '/', output directory `name/` where `name` is a plain file",
               "`_run_antismash` before `read_data` returns (module discovery, prerequisite checks) and the bodies of "
               "pre_process_sequences / run_detection / annotate_records / write_outputs are stubbed"]

    def __init__(self) -> None:
        self._tmp: Optional[tempfile.TemporaryDirectory] = None
        self._n = 0
        # module-level logging calls install a stderr handler when the root logger has none
        if not logging.getLogger().handlers:
            logging.getLogger().addHandler(logging.NullHandler())
        self._config_ready = False

    # ------------------------------------------------------------------ scratch space
    def scratch(self) -> str:
        if self._tmp is None:
            self._tmp = tempfile.TemporaryDirectory(prefix="asv_c20_")  # removed at exit by its finalizer
        self._n += 1
        path = os.path.join(self._tmp.name, f"c{self._n}")
        os.mkdir(path)
        return path

    def config(self, **values: Any) -> Any:
        from antismash.config import build_config, get_config, update_config
        if not self._config_ready:
            build_config([], isolated=True, modules=[])
            self._config_ready = True
        base = {"output_basename": "", "logfile": "", "output_dir": "", "reuse_results": "", "profile": False,
                "debug": False, "verbose": False, "list_plugins": False, "check_prereqs_only": False}
        base.update(values)
        update_config(base)
        return get_config()

    # ------------------------------------------------------------------ generators
    FAULTS: List[Tuple[str, List[Any]]] = [
        ("raise-type", ["raises", "TypeError"]),
        ("raise-value", ["raises", "ValueError"]),
        ("raise-key", ["raises", "KeyError"]),
        ("invalid", ["invalid", ["dict", 2]]),
        ("invalid-empty-dict", ["invalid", ["dict", 0]]),
        ("invalid-empty-list", ["invalid", ["list", 0]]),
        ("invalid-empty-str", ["invalid", ["str", ""]]),
        ("invalid-zero", ["invalid", ["int", 0]]),
        ("invalid-false", ["invalid", ["bool", False]]),
        ("raise-falsy", ["raises", False, "ValueError"]),
        ("opaque", ["mod", ["opaque"]]),
        ("nested", ["mod", ["dict", [["a", ["list", [["int", 1], ["conv", ["dict", [["b", ["dunderraises", "ValueError"]]]]]]]]]]]),
        ("bigint", ["mod", ["list", [["int", MAX64], ["int", MAX64 + 1]]]]),
    ]

    @staticmethod
    def base_dir(target: Optional[str], old: Optional[str]) -> List[List[Any]]:
        entries: List[List[Any]] = [["keep.txt", False, [["raw", "bystander"]]], ["input", True, []]]
        if target is not None and old is not None:
            entries.insert(1, [target, False, [["raw", old]] if old else []])
        return entries

    def write_case(self, fn: str, handle: str, records: List[Any], results: List[Any], timings: List[Any],
                   old: Optional[str] = "OLD RESULTS {\"records\": 1}\n") -> Dict[str, Any]:
        if handle == "existing":
            h, d = ["path", "res.json"], self.base_dir("res.json", old)
        elif handle == "missing":
            h, d = ["path", "res.json"], self.base_dir(None, None)
        elif handle == "stream":
            h, d = ["io", STREAM], self.base_dir(STREAM, old)
        else:
            h, d = ["absent"], self.base_dir(None, None)
        return {"kind": "write", "fn": fn, "handle": h, "dir": d,
                "results": {"records": records, "results": results, "timings": timings}}

    def grid_cases(self, limit: int) -> Iterator[Dict[str, Any]]:
        """every fault position (and 'none') of every n x m grid up to `limit`"""
        variants = [("write_to_file", h) for h in ("existing", "missing", "stream")] \
            + [("dump_records", h) for h in ("existing", "missing", "stream", "none")]
        for n in range(limit + 1):
            for m in range(limit + 1):
                def grid() -> List[Any]:
                    # every other module's results object is falsy (an "empty" results class)
                    return [[[f"m{j}", ["mod", (i + j) % 2 == 0, GOOD]] for j in range(m)] for i in range(n)]
                plans: List[Tuple[List[Any], List[Any], List[Any]]] = [([None] * n, grid(), ["dict", []])]
                for i in range(n):
                    for j in range(m):
                        for _, fault in self.FAULTS:
                            res = grid()
                            res[i][j] = [res[i][j][0], fault]
                            plans.append(([None] * n, res, ["dict", []]))
                    for exc in ("TypeError", "ValueError"):
                        recs: List[Any] = [None] * n
                        recs[i] = exc
                        plans.append((recs, grid(), ["dict", []]))
                    plans.append(([None] * n, grid()[:i], ["dict", []]))       # results too short at i
                plans.append(([None] * n, grid(), ["dict", [["r0", ["opaque"]]]]))   # timings
                plans.append(([None] * n, grid() + [[["extra", ["raises", "ValueError"]]]], ["dict", []]))
                for recs, res, timings in plans:
                    for fn, handle in variants:
                        yield self.write_case(fn, handle, recs, res, timings)

    def dir_target_cases(self) -> Iterator[Dict[str, Any]]:
        """a directory sits where the results file should go"""
        listing = [["keep.txt", False, [["raw", "bystander"]]], ["res.json", True, []]]
        plans = [([None], [[["m0", ["mod", True, GOOD]]]]), ([], []), ([None, None], [[["m0", ["mod", False, GOOD]]], []]),
                 ([None], [[["m0", ["raises", True, "ValueError"]]]]), ([None], [[["m0", ["invalid", ["dict", 0]]]]]),
                 ([None], [[["m0", ["mod", True, ["opaque"]]]]]), (["ValueError"], [[]])]
        for recs, res in plans:
            yield {"kind": "write", "fn": "write_to_file", "handle": ["path", "res.json"], "dir": listing,
                   "family": "dir-target", "results": {"records": recs, "results": res, "timings": ["dict", []]}}

    def rand_val(self, rng: random.Random, depth: int, faulty: float) -> List[Any]:
        r = rng.random()
        if depth <= 0 or r < 0.35:
            if rng.random() < faulty:
                return rng.choice([["opaque"], ["convraises", rng.choice(["ValueError", "TypeError"])],
                                   ["dunderraises", "KeyError"], ["int", rng.choice([MAX64 + 1, MIN64 - 1, 2 ** 70])]])
            return rng.choice([["none"], ["bool", True], ["bool", False], ["int", rng.choice([0, -1, 7, MAX64, MIN64])],
                               ["str", rng.choice(["", "x", "né", "\"q\""])], ["seq", "ACGT"]])
        if r < 0.5:
            return ["list", [self.rand_val(rng, depth - 1, faulty) for _ in range(rng.choice([0, 1, 2, 3]))]]
        if r < 0.65:
            keys = rng.sample(["a", "b", "c", "d"], rng.choice([0, 1, 2, 3]))
            return ["dict", [[k, self.rand_val(rng, depth - 1, faulty)] for k in keys]]
        if r < 0.75:
            return ["conv", self.rand_val(rng, depth - 1, faulty)]
        if r < 0.82:
            return ["dunder", self.rand_val(rng, depth - 1, faulty)]
        if r < 0.9:
            return ["both", self.rand_val(rng, depth - 1, faulty), self.rand_val(rng, depth - 1, 0.5)]
        return ["seqconv", "GATTACA", self.rand_val(rng, depth - 1, 0.5)]

    @staticmethod
    def rand_raw(rng: random.Random) -> List[Any]:
        return rng.choice([["dict", 0], ["dict", 1], ["dict", 3], ["list", 0], ["list", 2], ["str", ""], ["str", "x"],
                           ["int", 0], ["int", 5], ["bool", False], ["bool", True]])

    def rand_write(self, rng: random.Random) -> Dict[str, Any]:
        n = rng.choice([0, 1, 1, 2, 2, 3, 4, 5])
        p_fault = rng.choice([0.0, 0.0, 0.03, 0.1, 0.3])
        records: List[Any] = [rng.choice(["ValueError", "TypeError", "RuntimeError"]) if rng.random() < p_fault / 2 else None
                              for _ in range(n)]
        nres = n if rng.random() < 0.85 else max(0, n + rng.choice([-2, -1, 1]))
        results = []
        for _ in range(nres):
            mods = []
            for j in range(rng.choice([0, 1, 2, 3, 4, 6])):
                r = rng.random()
                if r < 0.2:
                    spec: List[Any] = ["none"]
                elif r < 0.2 + p_fault / 2:
                    spec = rng.choice([["raises", rng.random() < 0.7, rng.choice(sorted(EXCS))],
                                       ["invalid", self.rand_raw(rng)]])
                else:
                    spec = ["mod", rng.random() < 0.7, self.rand_val(rng, rng.choice([0, 1, 2, 3]), p_fault / 2)]
                mods.append([f"mod{j}", spec])
            results.append(mods)
        timings = ["dict", [[f"r{i}", self.rand_val(rng, 1, p_fault / 3)] for i in range(rng.choice([0, n]))]]
        fn = rng.choice(["write_to_file", "dump_records"])
        handle = rng.choice(["existing", "existing", "missing", "stream"] + (["none"] if fn == "dump_records" else []))
        old = rng.choice(["OLD\n", "", "{\"records\": [], \"previous\": true}", "[1]", "x" * 300])
        return self.write_case(fn, handle, records, results, timings, old)

    # directory entries: (label, name, is_dir, needs)
    ENTRY_KINDS: List[Tuple[str, str, bool]] = [
        ("input-dir", "input", True), ("log", "run.log", False), ("stray", "notes.txt", False),
        ("stray-dir", "old_run", True), ("hidden", ".hidden", False), ("region", "rec1.region001.gbk", False),
        ("region2", "c.regionabc.gbk", False), ("near-miss", "rec1.region01.gbk", False),
        ("json", "base.json", False), ("log-prefix", "run", False)]
    NEAR_NAMES = ["a.region0001.gbk", ".region001.gbk", ".h.region001.gbk", "a.region001.gbk.bak", "aregion001.gbk",
                  "a.region001gbk", "a.region001.GBK", "a.region.1.gbk", "x.region001.gbk.region002.gbk",
                  "..region001.gbk", "a.region00é.gbk", "input.region001.gbk"]
    MODES = {"fresh": "seq.gbk", "reuse": "base.json", "upper": "base.JSON", "bz2": "base.json.bz2",
             "fresh-gz": "seq.gbk.gz"}

    def prep_case(self, entries: List[List[Any]], mode: str, target: str = "dir", dirname: str = "out",
                  log: Optional[str] = "run.log", logform: str = "plain") -> Dict[str, Any]:
        return {"kind": "prepare", "target": target if target != "dir" else entries, "input": self.MODES[mode],
                "log": log, "dirname": dirname, "logform": logform}

    @staticmethod
    def make_entries(kinds: List[Tuple[str, str, bool]]) -> List[List[Any]]:
        return [[name, is_dir, [] if is_dir else [["raw", f"content of {name}"]]] for _, name, is_dir in kinds]

    def prepare_cases(self, rng: random.Random, full: bool) -> Iterator[Dict[str, Any]]:
        for target in ("absent", "file"):
            for mode in self.MODES:
                for dirname in DIR_NAMES:
                    if target == "file" and dirname.endswith("/"):
                        continue    # `exists("file/")` is False and mkdir then fails: not modelled
                    yield self.prep_case([], mode, target, dirname)
        kinds = self.ENTRY_KINDS
        for mask in range(1 << len(kinds)):
            chosen = [k for b, k in enumerate(kinds) if mask >> b & 1]
            entries = self.make_entries(chosen)
            modes = list(self.MODES) if full else ["fresh", "reuse"] + (
                [rng.choice(["upper", "bz2", "fresh-gz"])] if mask % 4 == 0 else [])
            for mode in modes:
                dirnames = DIR_NAMES if full else [rng.choice(DIR_NAMES)]
                for dirname in dirnames:
                    log = "run.log" if rng.random() < 0.8 else None
                    yield self.prep_case(entries, mode, "dir", dirname, log,
                                         rng.choice(["plain", "plain", "dotted", "elsewhere"]))
        # "input" as a plain file, the log file missing from the directory, name near-misses
        for mode in self.MODES:
            yield self.prep_case([["input", False, [["raw", "not a directory"]]]], mode)
            yield self.prep_case([["input", True, []], ["other.log", False, [["raw", "l"]]]], mode, log="other.log")
            yield self.prep_case([["run.log", True, []]], mode)
            yield self.prep_case([["xinput", True, []]], mode)
            yield self.prep_case([[n, False, [["raw", n]]] for n in self.NEAR_NAMES], mode, log=None)
        for _ in range(400 if full else 60):
            names = rng.sample(self.NEAR_NAMES + [k[1] for k in kinds if not k[2]], rng.choice([1, 2, 3, 5]))
            entries = [[n, False, [["raw", n]]] for n in names]
            if rng.random() < 0.5:
                entries.append(["input", True, []])
            rng.shuffle(entries)
            yield self.prep_case(entries, rng.choice(list(self.MODES)), "dir", rng.choice(DIR_NAMES),
                                 rng.choice([None, "run.log", names[0]]), rng.choice(["plain", "dotted"]))

    def locale_cases(self, rng: random.Random, full: bool) -> Iterator[Dict[str, Any]]:
        """non-ASCII characters at every record / module position (value, key, nested conversion, record
        description, timings), written by an interpreter whose default text encoding is ASCII"""
        texts = ["β-lactone", "Müller", "日本"]
        limit = 3 if full else 2
        for n in range(1, limit + 1):
            for m in range(0, limit + 1):
                def grid() -> List[Any]:
                    return [[[f"m{j}", ["mod", True, GOOD]] for j in range(m)] for _ in range(n)]
                plans: List[Tuple[List[Any], List[Any], List[Any], List[Any]]] = []
                for i in range(n):
                    desc: List[Any] = [None] * n
                    desc[i] = "Streptomyces sp. Müller 7, β-lactone producer"
                    plans.append(([None] * n, grid(), ["dict", []], desc))
                    for j in range(m):
                        for payload in (["str", rng.choice(texts)], ["dict", [["clé", ["int", 1]]]],
                                        ["conv", ["list", [["str", "é"], ["seq", "ACGT"]]]]):
                            res = grid()
                            res[i][j] = [f"m{j}", ["mod", True, payload]]
                            plans.append(([None] * n, res, ["dict", []], []))
                        # a conversion fault elsewhere with non-ASCII text around it: still fail-safe
                        res = grid()
                        res[i][j] = [f"m{j}", ["mod", True, ["str", "β"]]]
                        res[n - 1][m - 1] = [f"m{m - 1}", ["invalid", ["dict", 0]]]
                        plans.append(([None] * n, res, ["dict", []], []))
                plans.append(([None] * n, grid(), ["dict", [["récord", ["int", 1]]]], []))
                plans.append(([None] * n, grid(), ["dict", []], []))          # pure ASCII control
                for recs, res, timings, desc in plans:
                    for fn in ("write_to_file", "dump_records"):
                        for handle in ("existing", "missing"):
                            case = self.write_case(fn, handle, recs, res, timings)
                            case["results"]["descriptions"] = desc
                            case["locale"] = "C"
                            case["family"] = "locale"
                            yield case

    def logname_cases(self, rng: random.Random, full: bool) -> Iterator[Dict[str, Any]]:
        """which entry is "our own log file": names that are prefixes / extensions of the log file's name,
        directories above the log file, odd spellings of the log path, no log file at all"""
        def ent(name: str, is_dir: bool) -> List[Any]:
            return [name, is_dir, [] if is_dir else [["raw", f"content of {name}"]]]

        def case(entries: List[List[Any]], mode: str, logpath: str, **extra: Any) -> Dict[str, Any]:
            out = {"kind": "prepare", "family": "logname", "target": entries, "input": self.MODES[mode],
                   "dirname": "out", "logpath": logpath}
            out.update(extra)
            return out

        for logname in ("run.log", "antismash.log", "a"):
            stem = logname.split(".")[0]
            foreign = [ent(stem, False), ent(stem, True), ent(logname[:-1], False), ent(logname + "2", False),
                       ent(logname[0], True), ent(logname + ".old", False), ent(logname.upper(), False)]
            foreign = [e for e in foreign if e[0] and e[0] != logname]
            for with_log in (True, False):
                for with_input in (False, True):
                    base = ([ent(logname, False)] if with_log else []) + ([ent("input", True)] if with_input else [])
                    for mode in ("fresh", "reuse"):
                        for spelling in ("{out}/" + logname, "{out}/./" + logname, "{out}//" + logname,
                                         "{out}/x/../" + logname, "{root}/y/../out/" + logname):
                            yield case(base, mode, spelling)
                            for f in foreign:
                                yield case(base + [f], mode, spelling)
                                if full:
                                    yield case([f] + base, mode, spelling)
                        if full:
                            for f, g in itertools.combinations(foreign, 2):
                                if f[0] != g[0]:
                                    yield case(base + [f, g], mode, "{out}/" + logname)
        # the log file one or two levels down: the directory above it is a foreign entry
        for mode in ("fresh", "reuse"):
            for entries in ([ent("logs", True)], [ent("logs", True), ent("input", True)], [ent("logs", False)], []):
                yield case(entries, mode, "{out}/logs/run.log")
                yield case(entries, mode, "{out}/logs/deeper/run.log")
            # the log file *is* the output directory / lies above it
            yield case([ent("run.log", False)], mode, "{out}")
            yield case([ent("run.log", False)], mode, "{root}")
            yield case([ent("out", True)], mode, "{out}/out")
        # relative spellings and other working directories
        for mode in ("fresh", "reuse"):
            for entries in ([ent("run.log", False)], [ent("run.log", False), ent("run", False)], [ent("run", True)]):
                yield case(entries, mode, "out/run.log", cwd="{root}")
                yield case(entries, mode, "out/run.log", cwd="{root}", argform="rel")
                yield case(entries, mode, "{out}/run.log", cwd="{root}", argform="rel")
                yield case(entries, mode, "./run.log", cwd="{out}", argform="rel")
                yield case(entries, mode, "run.log", cwd="{out}")
        # no log file requested: nothing is exempt, wherever the run is started from
        for mode in ("fresh", "reuse"):
            for entries in ([ent("work", True)], [ent("work", True), ent("input", True)], [ent("input", True)], []):
                yield case(entries, mode, "")
                if entries and entries[0][0] == "work":
                    yield case(entries, mode, "", cwd="{out}/work")
                    yield case(entries, mode, "", cwd="{out}/work", argform="rel")
                yield case(entries, mode, "", cwd="{root}", argform="rel")
                if entries:
                    yield case(entries, mode, "", cwd="{out}", argform="rel")

    # input name -> the base name `canonical_base_filename` derives from it
    DERIVED = {"genome.gbk": "genome", "genome.fa.gz": "genome", "x.tar.GZ": "x", "base.json": "base",
               ".hidden": ".hidden", "a.b.c.xz": "a.b", "noext": "noext", "g.bz": "g", "up.GBK.Xz": "up",
               "dots..gbk": "dots.", "sp ace.fa": "sp ace", "reads.fa.bz": "reads", "gen.gbk.XZ": "gen"}

    def names_cases(self, rng: random.Random, full: bool) -> Iterator[Dict[str, Any]]:
        """derived names: empty --output-dir, --output-basename, compressed inputs, the results' own name"""
        def ent(name: str, is_dir: bool) -> List[Any]:
            return [name, is_dir, [] if is_dir else [["raw", f"content of {name}"]]]
        for inp, derived in self.DERIVED.items():
            for basename in ("", "custom"):
                dirname = basename or derived
                for target in ("absent", [], [ent("input", True)], [ent("notes.txt", False)],
                               [ent("a.region001.gbk", False), ent(derived + ".json", False)]):
                    yield {"kind": "prepare", "family": "names", "target": target, "input": inp, "dirname": dirname,
                           "logpath": "", "cwd": "{root}", "argform": "empty", "basename": basename}
                    yield {"kind": "prepare", "family": "names", "target": target, "input": inp, "dirname": "out",
                           "logpath": "{out}/run.log", "basename": basename}
                for res_input in ("seq.gbk", "other.fa.gz"):
                    for argform, dirname in (("empty", basename or derived), ("abs", "out")):
                        case = {"kind": "pipeline", "family": "names", "target": "absent", "input": inp,
                                "dirname": dirname, "logpath": "", "cwd": "{root}", "argform": argform,
                                "basename": basename, "results_input": res_input,
                                "results": {"records": [None], "results": [[["m0", ["mod", True, GOOD]]]],
                                            "timings": ["dict", []]}}
                        yield case
                        if full:
                            yield dict(case, results={"records": [None], "results": [[["m0", ["invalid", ["list", 0]]]]],
                                                      "timings": ["dict", []]},
                                       target=[ent((basename or derived) + ".json", False)] if inp.endswith(".json") else "absent")

    def reload_cases(self, rng: random.Random, full: bool) -> Iterator[Dict[str, Any]]:
        """reuse of a real results file whose module results nobody regenerates"""
        def ent(name: str, is_dir: bool) -> List[Any]:
            return [name, is_dir, [] if is_dir else [["raw", f"content of {name}"]]]
        values = [["dict", []], ["list", []], ["str", ""], ["int", 0], ["bool", False], ["none"], GOOD,
                  ["conv", ["dict", []]], ["dunder", ["none"]], ["list", [["int", 1]]], ["str", "x"], ["bool", True],
                  ["seq", "ACGT"], ["both", ["dict", []], ["int", 1]]]
        listings = [[ent("base.json", False)], [ent("base.json", False), ent("rec.region001.gbk", False), ent("notes.txt", False)]]
        limit = 3 if full else 2
        for n in range(1, limit + 1):
            for m in range(1, limit + 1):
                for i in range(n):
                    for j in range(m):
                        for v in values if full else rng.sample(values, 5) + values[:1]:
                            res = [[[f"m{b}", ["mod", True, ["none"]]] for b in range(m)] for _ in range(n)]
                            res[i][j] = [f"m{j}", ["mod", rng.random() < 0.5, v]]
                            yield {"kind": "pipeline", "family": "reload", "reload": True, "target": rng.choice(listings),
                                   "input": "base.json", "dirname": "out", "logpath": "{out}/run.log",
                                   "results": {"records": [None] * n, "results": res, "timings": ["dict", []]}}
        for _ in range(300 if full else 40):
            n = rng.choice([1, 2, 3])
            res = [[[f"m{b}", rng.choice([["none"], ["mod", rng.random() < 0.5, rng.choice(values)]])]
                    for b in range(rng.choice([0, 1, 2, 4]))] for _ in range(n)]
            yield {"kind": "pipeline", "family": "reload", "reload": True, "target": rng.choice(listings),
                   "input": "base.json", "dirname": "out", "logpath": "{out}/run.log",
                   "results": {"records": [None] * n, "results": res, "timings": ["dict", []]}}

    def outer_cases(self, rng: random.Random, full: bool) -> Iterator[Dict[str, Any]]:
        """`run_antismash` itself: the real `changed_logging` creates / appends to the log file (and the
        directories above it) before `_run_antismash` looks at the output directory"""
        def ent(name: str, is_dir: bool) -> List[Any]:
            return [name, is_dir, [] if is_dir else [["raw", f"content of {name}"]]]
        good = {"records": [None], "results": [[["m0", ["mod", False, GOOD]]]], "timings": ["dict", []]}
        bad = {"records": [None, None], "results": [[["m0", ["mod", True, GOOD]]], [["m0", ["raises", True, "ValueError"]]]],
               "timings": ["dict", []]}
        stale = {"records": [None], "results": [[["m0", ["mod", True, GOOD]], ["old", ["invalid", ["dict", 0]]]]],
                 "timings": ["dict", []]}
        targets: List[Any] = ["absent", [], [ent("run.log", False)], [ent("run.log", False), ent("input", True)],
                              [ent("run.log", False), ent("notes.txt", False)], [ent("notes.txt", False)],
                              [ent("run", False), ent("run.log", False)], [ent("run", True)], [ent("logs", True)],
                              [ent("logs", True), ent("input", True)], [ent("seq.json", False), ent("base.json", False),
                                                                        ent("r.region001.gbk", False)]]
        logpaths = ["{out}/run.log", "{out}/./run.log", "{out}/logs/run.log", "{out}/logs/deeper/run.log",
                    "{root}/elsewhere.log", "{root}/other/dir/elsewhere.log", ""]
        targets += [[ent("profiling_results", False)], [ent("profiling_results", False), ent("profiling_results.bin", False),
                                                        ent("run.log", False)]]
        option_sets: List[Dict[str, bool]] = [
            {}, {"profile": True}, {"profile": True, "debug": True}, {"verbose": True},
            {"list_plugins": True, "profile": True}, {"check_prereqs_only": True, "profile": True},
            {"check_prereqs_only": True, "prereqs_ok": False}, {"prereqs_ok": False, "profile": True},
            {"options_valid": False, "profile": True}, {"any_module": False, "profile": True}, {"debug": True}]
        for target in targets:
            for logpath in logpaths if full else (logpaths[0], logpaths[2], logpaths[4], logpaths[6]):
                for mode in ("fresh", "reuse"):
                    for results in (good, bad, stale) if full else (good, rng.choice([bad, stale])):
                        for opts in option_sets if full else option_sets[:2] + [rng.choice(option_sets[2:])]:
                            yield {"kind": "pipeline", "family": "outer", "outer": True, "target": target,
                                   "input": self.MODES[mode], "dirname": "out", "logpath": logpath,
                                   "results": results, "opts": opts}
        # what `read_data` finds, with the real `read_data` / `from_file`: nothing, an empty or non-JSON reuse
        # file, results documents of schema 0..7 or without the key
        empty = {"records": [], "results": [], "timings": ["dict", []]}
        for inp in ("nothing", "empty", "notjson", "noschema", 0, 1, 2, 3, 4, 5, 7):
            for target in ("absent", [], [ent("notes.txt", False)], [ent("run.log", False), ent("base.json", False),
                                                                      ent("r.region001.gbk", False)]):
                for profile in (False, True):
                    yield {"kind": "pipeline", "family": "outer", "outer": True, "target": target, "input": "base.json",
                           "dirname": "out", "logpath": "{out}/run.log", "results": empty,
                           "opts": {"input": inp, "profile": profile}}
        if full:
            for logpath in ("out/run.log", "./out/logs/x.log"):
                for target in targets[:6]:
                    yield {"kind": "pipeline", "family": "outer", "outer": True, "target": target, "input": "seq.gbk",
                           "dirname": "out", "logpath": logpath, "cwd": "{root}", "argform": "rel", "results": good}

    PATH_EDGE = ["", "/", "//", "///", "////a", "//a", "/a", "a", ".", "..", "./", "../", "a/..", "a/../..", "/..",
                 "//..", "/a/./b//c/../d/", "a//b", "/a/b/", ".hidden", "..x", "a.", "a.b.c", "/x.d/file", "/x/.rc",
                 "x.tar.gz", "/a/b.c/", "...", "a/.../b", "run.log", "/tmp/out/run.log", "out/run"]

    def path_cases(self, rng: random.Random, full: bool) -> Iterator[Dict[str, Any]]:
        for a in self.PATH_EDGE:
            for b in self.PATH_EDGE if full else rng.sample(self.PATH_EDGE, 6):
                yield {"kind": "path", "a": a, "b": b}
        atoms = ["a", "b", "run", "run.log", ".", "..", "", "x.y", ".h", "é"]
        for _ in range(6000 if full else 300):
            def rand_path() -> str:
                lead = rng.choice(["", "", "/", "/", "//", "///"])
                return lead + "/".join(rng.choice(atoms) for _ in range(rng.choice([0, 1, 2, 3, 5])))
            yield {"kind": "path", "a": rand_path(), "b": rand_path()}

    def pipeline_cases(self, rng: random.Random, full: bool) -> Iterator[Dict[str, Any]]:
        dirs: List[Tuple[Any, str]] = [("absent", "fresh"), ("absent", "reuse"), ("file", "fresh"), ([], "fresh")]
        for chosen in ([], ["input-dir"], ["input-dir", "log"], ["json"], ["json", "region"], ["stray"],
                       ["input-dir", "json", "region", "hidden"], ["hidden"], ["region"]):
            entries = self.make_entries([k for k in self.ENTRY_KINDS if k[0] in chosen])
            for mode in ("fresh", "reuse"):
                dirs.append((entries, mode))
        limit = 2
        plans: List[Tuple[List[Any], List[Any], List[Any]]] = []
        for n in range(limit + 1):
            for m in range(limit + 1):
                def grid() -> List[Any]:
                    return [[[f"m{j}", ["mod", (i + j) % 2 == 1, GOOD]] for j in range(m)] for i in range(n)]
                plans.append(([None] * n, grid(), ["dict", []]))
                for i in range(n):
                    for j in range(m):
                        for label, fault in self.FAULTS:
                            if full or label in ("raise-type", "raise-value", "opaque", "invalid-empty-dict",
                                                 "invalid-zero"):
                                res = grid()
                                res[i][j] = [res[i][j][0], fault]
                                plans.append(([None] * n, res, ["dict", []]))
                    recs: List[Any] = [None] * n
                    recs[i] = "ValueError"
                    plans.append((recs, grid(), ["dict", []]))
        for target, mode in dirs:
            chosen_plans = plans if full else rng.sample(plans, 12) + plans[:1]
            for recs, res, timings in chosen_plans:
                yield {"kind": "pipeline", "target": target, "input": self.MODES[mode],
                       "log": "run.log", "dirname": rng.choice(DIR_NAMES[:-1] if target == "file" else DIR_NAMES) if full else "out",
                       "logform": "plain",
                       "json": "base.json" if mode == "reuse" else "seq.json", "results": {"records": recs, "results": res, "timings": timings}}

    def cases(self, rng: random.Random, tier: str, deep: bool) -> Iterator[Dict[str, Any]]:
        full = deep
        yield from self.grid_cases(4 if full else 3)
        for _ in range(20000 if full else 1500):
            yield self.rand_write(rng)
        yield from self.prepare_cases(rng, full)
        yield from self.dir_target_cases()
        yield from self.locale_cases(rng, full)
        yield from self.logname_cases(rng, full)
        yield from self.path_cases(rng, full)
        yield from self.names_cases(rng, full)
        yield from self.reload_cases(rng, full)
        yield from self.outer_cases(rng, full)
        yield from self.pipeline_cases(rng, full)
        self.exhaustive_done = True
        self.extra_coverage = {"grid_limit": 4 if full else 3,
                               "exhaustive_scope": "every fault position x fault type x function x handle on every "
                                                   "n x m grid up to the limit; every subset of the 9 entry kinds"}

    # ------------------------------------------------------------------ implementation adapter
    # ------------------------------------------------------------------ a second interpreter, ASCII locale
    _worker: Optional[subprocess.Popen] = None

    def worker(self) -> subprocess.Popen:
        """one child interpreter per check run whose default text encoding is ASCII (LC_ALL=C, UTF-8 mode and
        locale coercion off): cases that name a locale run their real-code part there"""
        if self._worker is None or self._worker.poll() is not None:
            env = {k: v for k, v in os.environ.items() if not (k.startswith("LC_") or k in ("LANG", "LANGUAGE"))}
            env.update({"LC_ALL": "C", "PYTHONUTF8": "0", "PYTHONCOERCECLOCALE": "0"})
            root = os.path.dirname(os.path.dirname(os.path.dirname(os.path.abspath(__file__))))
            self._worker = subprocess.Popen([sys.executable, "-m", "harness.props.c20", "--worker"], env=env, cwd=root,
                                            stdin=subprocess.PIPE, stdout=subprocess.PIPE, stderr=subprocess.DEVNULL,
                                            text=True, encoding="ascii", errors="backslashreplace")
            import atexit
            atexit.register(self.stop_worker)
        return self._worker

    def stop_worker(self) -> None:
        if self._worker is not None and self._worker.poll() is None:
            try:
                self._worker.stdin.close()      # type: ignore[union-attr]
                self._worker.wait(timeout=10)
            except Exception:  # pylint: disable=broad-except
                self._worker.kill()
        self._worker = None

    def run_in_worker(self, case: Dict[str, Any]) -> Dict[str, Any]:
        proc = self.worker()
        assert proc.stdin is not None and proc.stdout is not None
        proc.stdin.write(std_json.dumps({k: v for k, v in case.items() if k != "locale"}) + "\n")
        proc.stdin.flush()
        line = proc.stdout.readline()
        if not line:
            from ..framework import Infra
            raise Infra("the ASCII-locale worker died")
        return std_json.loads(line)

    def run_impl(self, case: Dict[str, Any]) -> Dict[str, Any]:
        if case.get("locale"):
            return self.run_in_worker(case)
        kind = case["kind"]
        path = self.scratch()
        try:
            if kind == "write":
                return self.run_write(case, path)
            if kind == "prepare":
                return self.run_prepare(case, path)
            if kind == "pipeline":
                return self.run_pipeline(case, path)
            if kind == "path":
                return self.run_path(case)
            raise ValueError(f"unknown case kind {kind}")
        finally:
            shutil.rmtree(path, ignore_errors=True)

    @staticmethod
    def run_path(case: Dict[str, Any]) -> Dict[str, Any]:
        """the real `posixpath` functions on the strings of the case (`a` doubles as the cwd of abspath)"""
        import posixpath
        a, b = case["a"], case["b"]
        with mock.patch("os.getcwd", return_value=a):
            absolute = posixpath.abspath(b)
        return {"impl": {"normpath": posixpath.normpath(a), "join": posixpath.join(a, b), "abspath": absolute,
                         "basename": posixpath.basename(a), "splitext": list(posixpath.splitext(a)),
                         "isabs": posixpath.isabs(a)}}

    def run_write(self, case: Dict[str, Any], path: str) -> Dict[str, Any]:
        from antismash.common import serialiser
        outdir = os.path.join(path, "out")
        os.mkdir(outdir)
        populate(outdir, case["dir"])
        rec = _Recorder(path, outdir)
        results = build_results(case["results"], rec)
        handle = case["handle"]
        stream: Optional[_Stream] = None
        if handle[0] == "path":
            arg: Any = os.path.join(outdir, handle[1])
        elif handle[0] == "io":
            initial = next(raw_of(c) for n, _, c in case["dir"] if n == STREAM)
            stream = arg = _Stream(initial, rec)
        else:
            arg = None
        err = None
        with _Capture(rec):
            try:
                if case["fn"] == "write_to_file":
                    results.write_to_file(arg)
                else:
                    serialiser.dump_records(results.results, results.records, arg)
            except Exception as exc:  # pylint: disable=broad-except
                err = exn_name(exc)
                exc = None  # drop the traceback (and with it any file object still referenced)
        return {"trace": canon_trace(rec.events), "err": err, "dir": read_back(outdir, case["dir"], stream)}

    def _outdir(self, case: Dict[str, Any], path: str) -> Tuple[str, str]:
        """creates what the case says exists at the output path; returns (argument, real path)"""
        dirname = case["dirname"]
        real = os.path.join(path, dirname.rstrip("/"))
        target = case["target"]
        if target == "file":
            with open(real, "w", encoding="utf-8") as handle:
                handle.write("a plain file")
        elif target != "absent":
            os.mkdir(real)
            populate(real, target)
        # decoys: what an unescaped glob of the directory name would look at instead
        for decoy in ("out1", "result", "qx") if case.get("decoys", True) else ():
            os.mkdir(os.path.join(path, decoy))
            with open(os.path.join(path, decoy, "decoy.region001.gbk"), "w", encoding="utf-8") as handle:
                handle.write("decoy")
        return os.path.join(path, dirname), real

    @staticmethod
    def _paths(case: Dict[str, Any], path: str, real: str) -> Dict[str, Any]:
        """the strings the run is given: working directory, directory argument, `config.logfile`.
        `logpath` / `cwd` are templates over {root} (the scratch directory) and {out} (the output
        directory); without them the older fields `log` / `logform` say where the log file is."""
        def fill(template: str) -> str:
            return template.replace("{root}", path).replace("{out}", real)
        if "logpath" in case:
            logfile = fill(case["logpath"])
        elif case.get("log") is None or case.get("logform") == "elsewhere":
            logfile = os.path.join(path, "elsewhere.log")
        elif case.get("logform") == "dotted":
            logfile = os.path.join(real, ".", case["log"])
        else:
            logfile = os.path.join(real, case["log"])
        cwd = fill(case["cwd"]) if case.get("cwd") else None
        dirname = case["dirname"]
        if case.get("argform", "abs") == "empty":
            assert cwd is not None      # the directory is derived: abspath(<prefix of the input name>)
            arg = ""
        elif case.get("argform", "abs") == "rel":
            assert cwd is not None
            arg = os.path.relpath(real, cwd) + ("/" if dirname.endswith("/") else "")
        else:
            arg = os.path.join(path, dirname)
        return {"cwd": cwd, "name": arg, "logfile": logfile}

    class _Cwd:
        """`os.chdir` for the duration of one call (only for cases that name a working directory)"""
        def __init__(self, cwd: Optional[str]) -> None:
            self.cwd = cwd
            self.back = os.getcwd()

        def __enter__(self) -> str:
            if self.cwd is not None:
                os.chdir(self.cwd)
            return os.getcwd()

        def __exit__(self, *args: Any) -> None:
            os.chdir(self.back)

    def _observe_target(self, case: Dict[str, Any], real: str, path: str, logname: Optional[str] = None,
                        created: Optional[List[str]] = None) -> Any:
        if not os.path.exists(real):
            return "absent"
        if not os.path.isdir(real):
            with open(real, encoding="utf-8") as handle:
                return "file" if handle.read() == "a plain file" else [["<file changed>", False, []]]
        before = case["target"] if isinstance(case["target"], list) else []
        listing = read_back(real, before, None, logname, created)
        for decoy in ("out1", "result", "qx") if case.get("decoys", True) else ():
            if not os.path.exists(os.path.join(path, decoy, "decoy.region001.gbk")):
                listing.append([f"../{decoy}/decoy.region001.gbk", False, [["raw", "<deleted>"]]])
        return listing

    def run_prepare(self, case: Dict[str, Any], path: str) -> Dict[str, Any]:
        from antismash import main
        _, real = self._outdir(case, path)
        paths = self._paths(case, path, real)
        rec = _Recorder(path, real)
        err = None
        with self._Cwd(paths["cwd"]) as cwd:
            config = self.config(logfile=paths["logfile"], output_basename=case.get("basename", ""))
            with _Capture(rec):
                try:
                    main.prepare_output_directory(paths["name"], os.path.join(path, case["input"]))
                except Exception as exc:  # pylint: disable=broad-except
                    err = exn_name(exc)
            effective = config.output_dir
        return {"trace": self._order_removes(case, rec.events), "err": err,
                "target": self._observe_target(case, real, path),
                "paths": dict(paths, cwd=cwd, effective=effective)}

    @staticmethod
    def _order_removes(case: Dict[str, Any], events: List[Any]) -> List[Any]:
        """runs of removals in the order of the case's own listing (the model's iteration order)"""
        order = {e[0]: i for i, e in enumerate(case["target"])} if isinstance(case["target"], list) else {}
        out: List[Any] = []
        run: List[Any] = []
        for ev in events + [None]:
            if isinstance(ev, list) and ev[0] == "remove":
                run.append(ev)
                continue
            out.extend(sorted(run, key=lambda e: (order.get(e[1], len(order)), e[1])))
            run = []
            if ev is not None:
                out.append(ev)
        return out

    def run_pipeline(self, case: Dict[str, Any], path: str) -> Dict[str, Any]:
        from antismash import main
        from antismash.common import record_processing
        _, real = self._outdir(case, path)
        paths = self._paths(case, path, real)
        reuse = case["input"].endswith(".json")
        input_path = os.path.join(path, case["input"])
        rec = _Recorder(path, real)
        results = build_results(case["results"], rec)
        # the name the results carry; the base name normally comes from the input path
        results.input_file = case.get("results_input", "seq.gbk")
        for record in results.records:
            record.skip = "skipped by the harness"
        extra: Dict[str, Any] = {}
        if case.get("reload"):
            # a real results file, written by the real code from the stub results, is what gets reused:
            # `read_data` is the real one, and nothing regenerates the module results it loads
            input_path = os.path.join(real, "base.json")
            results.write_to_file(input_path)
            with open(input_path, encoding="utf-8") as handle:
                extra = {"initial_json": doc_tokens(handle.read()), "json_name": "base.json"}
            rec.events.clear()
            reuse = True

        def passthrough(records: Any, *_args: Any, **_kwargs: Any) -> Any:
            return records

        def annotate(_results: Any) -> None:
            rec.events.append("annotated")

        def outputs(_results: Any, _options: Any) -> None:
            rec.events.append("outputs")

        real_prepare = main.prepare_output_directory

        def prepare(name: str, input_file: str) -> None:
            real_prepare(name, input_file)
            rec.events.append("prepared")

        opts = case.get("opts", {})
        real_read = bool(case.get("reload"))
        seq_arg: Optional[str] = None if reuse else input_path
        kind_of_input = opts.get("input")
        if case.get("outer") and kind_of_input not in (None, "sequence"):
            # what `read_data` finds is real: no input at all, or a reuse file with the given content
            real_read = True
            seq_arg = None
            if kind_of_input == "nothing":
                reuse = False
            else:
                reuse = True
                input_path = os.path.join(path, "base.json")
                doc: Dict[str, Any] = {"version": "0", "input_file": "seq.gbk", "records": [], "taxon": "bacteria"}
                if isinstance(kind_of_input, int):
                    doc["schema"] = kind_of_input
                text = {"empty": "", "notjson": "this is not a results file"}.get(kind_of_input, std_json.dumps(doc))
                with open(input_path, "w", encoding="utf-8") as handle:
                    handle.write(text)

        def prerequisites(_modules: Any, _options: Any) -> None:
            if not opts.get("prereqs_ok", True):
                raise RuntimeError("Modules failing prerequisites")

        import cProfile
        import contextlib
        import io
        profilers: List[Any] = []

        class TrackedProfile(cProfile.Profile):
            """the code never disables its profiler when the run dies; the harness has to, or the next
            profiled run cannot start ("Another profiling tool is already active")"""
            def __init__(self, *args: Any, **kwargs: Any) -> None:
                super().__init__(*args, **kwargs)
                profilers.append(self)

        err = None
        code: Any = None
        with self._Cwd(paths["cwd"]) as cwd, contextlib.redirect_stdout(io.StringIO()), \
                mock.patch.object(main, "_log_found_executables", lambda _o: None), \
                mock.patch.object(main, "get_all_modules", lambda: []), \
                mock.patch.object(main, "list_plugins", lambda: None), \
                mock.patch.object(main.cProfile, "Profile", TrackedProfile), \
                mock.patch.object(main, "_get_all_enabled_modules",
                                  lambda _m, _o: ["stub"] if opts.get("any_module", True) else []), \
                mock.patch.object(main, "check_prerequisites", prerequisites), \
                mock.patch.object(main, "verify_options", lambda _o, _m: opts.get("options_valid", True)), \
                mock.patch.object(main, "read_data", main.read_data if real_read
                                  else (lambda _s, _o: results)), \
                mock.patch.object(main, "run_detection", lambda _r, _o, _m: {}), \
                mock.patch.object(record_processing, "pre_process_sequences", passthrough), \
                mock.patch.object(main, "prepare_output_directory", prepare), \
                mock.patch.object(main, "annotate_records", annotate), \
                mock.patch.object(main, "write_outputs", outputs), \
                _Capture(rec):
            if case.get("outer"):
                # the options come from the real command line parser (FullPathAction makes paths absolute)
                from antismash.config import build_config, destroy_config, update_config
                argv: List[str] = []
                if paths["logfile"]:
                    argv += ["--logfile", paths["logfile"]]
                if paths["name"]:
                    argv += ["--output-dir", paths["name"]]
                if case.get("basename"):
                    argv += ["--output-basename", case["basename"]]
                for flag, key in (("--profiling", "profile"), ("--debug", "debug"), ("--verbose", "verbose"),
                                  ("--list-plugins", "list_plugins"), ("--check-prereqs", "check_prereqs_only")):
                    if opts.get(key):
                        argv.append(flag)
                destroy_config()
                options = build_config(argv, isolated=True, modules=[])
                update_config({"reuse_results": input_path if reuse else ""})
                paths = dict(paths, name=options.output_dir, logfile=options.logfile)
            else:
                options = self.config(logfile=paths["logfile"], output_dir=paths["name"],
                                      output_basename=case.get("basename", ""),
                                      reuse_results=input_path if reuse else "")
            try:
                if case.get("outer"):
                    code = main.run_antismash(seq_arg, options)
                else:
                    main._run_antismash(None if reuse else input_path, options)  # pylint: disable=protected-access
            except Exception as exc:  # pylint: disable=broad-except
                err = exn_name(exc)
                exc = None
            finally:
                for profiler in profilers:
                    profiler.disable()
        logname = None
        events = rec.events
        if case.get("outer"):
            # the entry of the output directory the run logs to (or into), and the trace without the logging
            # machinery's own file traffic
            inside = os.path.relpath(os.path.normpath(os.path.join(cwd, paths["logfile"])), real) \
                if paths["logfile"] else ".."
            logname = None if inside.startswith("..") or inside == "." else inside.split(os.sep)[0]
            events = [e for e in events if not (isinstance(e, list) and e[0] in ("open", "write", "mkdir")
                                                and (e[1].split(":")[0] == inside or "/" in e[1]))]
            # binary mode is still "w"; repeated writes to one handle are one write
            events = [["open", e[1][:-3]] if isinstance(e, list) and e[0] == "open" and e[1].endswith(":wb") else e
                      for e in events]
            events = [e for k, e in enumerate(events)
                      if not (k and isinstance(e, list) and e[0] == "write" and events[k - 1] == e)]
        created = [e[1].split(":")[0].split("/")[0] for e in rec.events
                   if isinstance(e, list) and e[0] in ("open", "mkdir")]
        return {"trace": self._order_removes(case, events), "err": err, "code": code,
                "target": self._observe_target(case, real, path, logname, created),
                "paths": dict(paths, cwd=cwd, effective=options.output_dir), **extra}

    # ------------------------------------------------------------------ driver + verdict
    def driver_line(self, case: Dict[str, Any], obs: Dict[str, Any]) -> Optional[Dict[str, Any]]:
        impl = None if "trace" not in obs else obs
        if case["kind"] == "write":
            encoding = str(obs.get("encoding", "utf-8")).lower()
            locale_codec = "ascii" if encoding in ("ascii", "ansi_x3.4-1968", "646", "us-ascii") else \
                "latin-1" if encoding in ("latin-1", "iso-8859-1", "iso8859-1") else "utf-8"
            return {"kind": "write", "fn": case["fn"], "handle": case["handle"], "dir": case["dir"],
                    "results": case["results"], "impl": impl, "locale": locale_codec}
        if case["kind"] == "path":
            return {"kind": "path", "a": case["a"], "b": case["b"]}
        paths = obs.get("paths") or {"cwd": "/", "name": "/unobserved", "logfile": ""}
        line = {"kind": case["kind"], "target": case["target"], "input": case["input"],
                "cwd": paths["cwd"], "name": paths["name"], "logfile": paths["logfile"],
                "basename": case.get("basename", ""), "impl": impl}
        if case["kind"] == "pipeline":
            line["results"] = case["results"]
            line["results_input"] = case.get("results_input", "seq.gbk")
            line["reload"] = bool(case.get("reload"))
            line["outer"] = bool(case.get("outer"))
            line["opts"] = case.get("opts", {})
            if case.get("reload") and isinstance(line["target"], list) and "initial_json" in obs:
                # the reused file holds what the first (real) write put there
                line["target"] = [[n, d, obs["initial_json"] if n == obs["json_name"] else c]
                                  for n, d, c in line["target"]]
        return line

    def judge(self, case: Dict[str, Any], obs: Dict[str, Any], drv: Optional[Dict[str, Any]]) -> Judgement:
        assert drv is not None
        if "err" in drv and "model" not in drv:
            return Judgement(False, True, detail=f"driver error {drv['err']}")
        if case["kind"] == "path":
            same = obs.get("impl") == drv["model"]
            return Judgement(same, True, tags=("path", "abs" if case["a"].startswith("/") else "rel"),
                             detail="" if same else f"posixpath model {drv['model']} vs os.path {obs.get('impl')}")
        if "trace" not in obs:
            return Judgement(False, False, detail=f"harness could not observe the run: {obs}")
        model, spec = drv["model"], drv["spec"]
        state = "dir" if case["kind"] == "write" else "target"
        mine = {"trace": canon_trace(obs["trace"]), "err": obs["err"], state: obs[state]}
        theirs = {"trace": canon_trace(model["trace"]), "err": model["err"], state: model[state]}
        if case.get("outer"):
            mine["code"] = obs.get("code")
            theirs["code"] = model.get("code")
        if case.get("argform") == "empty":
            mine["name"] = obs["paths"].get("effective")
            theirs["name"] = drv.get("name")
        if case.get("reload"):
            # reloaded records are plain `Record`s: their conversions are not observable
            theirs["trace"] = [e for e in theirs["trace"] if not (isinstance(e, list) and e[0] in ("rec", "mod"))]
        corr = mine == theirs
        spec_ok = bool(spec["impl_ok"])
        detail = ""
        if not spec_ok:
            detail = f"property violated: {self.explain(case, obs, spec)}"
        elif not corr:
            diff = [k for k in mine if mine[k] != theirs[k]]
            note = ""
            if diff == ["trace"] and [e for e in mine["trace"] if e != "logerr"] == \
                    [e for e in theirs["trace"] if e != "logerr"]:
                note = " (only the error log differs: the failure still reaches the caller, so the property's " \
                       "'reported' holds; the logging behaviour of the modelled code has changed)"
            detail = f"model and implementation differ in {diff}{note}: model {theirs} vs implementation {mine}"
        if not spec["model_ok"] and not detail:
            detail = "the model itself violates the spec on this input"
        tags = [case["kind"]]
        nontrivial = False
        if case["kind"] == "write":
            fault = bool(spec["fault"])
            had_old = any(n == case["handle"][-1] and c for n, _, c in case["dir"])
            tags += [case["fn"], "handle-" + case["handle"][0], "fault" if fault else "no-fault",
                     "err-" + str(obs["err"])]
            if case.get("locale"):
                tags.append("default-encoding-" + str(obs.get("encoding")))
            nontrivial = fault and had_old
        elif case["kind"] == "prepare":
            tags += ["accepts" if spec["accepts"] else "refuses", case.get("family", "subsets"),
                     "target-" + (case["target"] if isinstance(case["target"], str) else "dir"),
                     "reuse" if case["input"].endswith(".json") else "fresh",
                     "removes" if any(isinstance(e, list) and e[0] == "remove" for e in obs["trace"]) else "no-removal"]
            nontrivial = isinstance(case["target"], list) and bool(case["target"])
        else:
            tags += ["accepts" if spec["accepts"] else "refuses", "fault" if spec["fault"] else "no-fault",
                     "err-" + str(obs["err"])]
            nontrivial = True
        return Judgement(corr and bool(spec["model_ok"]), spec_ok, in_scope=bool(drv.get("scope", True)),
                         nontrivial=nontrivial,
                         tags=tuple(tags), detail=detail[:1500])

    @staticmethod
    def explain(case: Dict[str, Any], obs: Dict[str, Any], spec: Dict[str, Any]) -> str:
        if case["kind"] == "write":
            if spec["fault"]:
                return (f"a conversion fault must be reported with the directory unchanged and nothing opened; "
                        f"got err={obs['err']} trace={obs['trace']} dir={obs['dir']}")
            return f"fault-free results must be written completely; got err={obs['err']} dir={obs['dir']}"
        return (f"accepts={spec.get('accepts')} fault={spec.get('fault')}: got err={obs['err']} "
                f"trace={obs['trace']} target={obs['target']}")

    def shrink(self, case: Dict[str, Any]) -> Iterator[Dict[str, Any]]:
        if "results" in case:
            res = case["results"]
            n = len(res["records"])
            for i in range(n):
                yield dict(case, results=dict(res, records=res["records"][:i] + res["records"][i + 1:],
                                              results=res["results"][:i] + res["results"][i + 1:]))
            for i, mods in enumerate(res["results"]):
                for j in range(len(mods)):
                    new = res["results"][:i] + [mods[:j] + mods[j + 1:]] + res["results"][i + 1:]
                    yield dict(case, results=dict(res, results=new))
            if res["timings"] != ["dict", []]:
                yield dict(case, results=dict(res, timings=["dict", []]))
        key = "dir" if case["kind"] == "write" else "target"
        if isinstance(case[key], list):
            for i, entry in enumerate(case[key]):
                if case["kind"] == "write" and entry[0] == case["handle"][-1]:
                    continue
                if "/" + entry[0] in case.get("cwd", "") + "/":
                    continue    # the run is started from inside this entry
                yield {**case, key: case[key][:i] + case[key][i + 1:]}
        if case.get("dirname", "out") != "out":
            yield dict(case, dirname="out")


PROP = C20


def _worker_main() -> None:
    """line protocol: one case per line in, one observation per line out (ASCII-only JSON)"""
    import locale
    prop = C20()
    encoding = locale.getencoding()
    for line in sys.stdin:
        line = line.strip()
        if not line:
            continue
        try:
            obs = prop.run_impl(std_json.loads(line))
        except BaseException as exc:  # pylint: disable=broad-except
            obs = {"err": "other:" + type(exc).__name__, "_trace": str(exc)[:300]}
        obs["encoding"] = encoding
        sys.stdout.write(std_json.dumps(obs) + "\n")
        sys.stdout.flush()


if __name__ == "__main__" and "--worker" in sys.argv:
    _worker_main()
