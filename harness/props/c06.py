"""C06 — regions are the disjoint connected components of overlapping areas; numbering; parent links.

Implementation under test: Record.add_protocluster / add_candidate_cluster / add_subregion / add_region,
the four clear_* methods, create_candidate_clusters (the real formation code; its groups are fed to the
model), create_regions, Region.__init__, CandidateCluster.__init__, the CDSCollection parent setter and
the get_*_number lookups — driven as operation histories on a DummyRecord.

A case is  {"len", "circ", "cds": [loc], "ops": [op]}  with ops
  ["addProto", loc, core] ["addSub", loc] ["addCand", [protocluster positions]] ["createCands"]
  ["addRegion", [candidate positions], [subregion positions]] ["createRegions"]
  ["clearProtos"] ["clearCands"] ["clearSubs"] ["clearRegions"]
(positions index the record's current lists, taken modulo their length).  After every op the record is
dumped canonically; the history stops at the first exception.
"""
from __future__ import annotations

import itertools
import logging
import random
from typing import Any, Dict, Iterator, List, Optional, Tuple

from ..framework import Judgement, Property, err_kind
from . import common

R = "antismash/common/secmet/record.py"


def simple(lo: int, hi: int) -> Dict[str, Any]:
    return {"c": False, "parts": [[lo, hi, 1]]}


def crossing(x: int, n: int, y: int) -> Dict[str, Any]:
    return {"c": True, "parts": [[x, n, 1], [0, y, 1]]}


def area(lo: int, hi: int, n: int) -> Dict[str, Any]:
    """[lo, hi) going forwards round a ring of length n (hi <= lo: over the origin)"""
    return simple(lo, hi) if lo < hi else crossing(lo, n, hi)


CLEARS = ("clearProtos", "clearCands", "clearSubs", "clearRegions")


class _Ids:
    """object identity -> small ids in construction order (objects are kept alive)"""

    def __init__(self) -> None:
        self.ids: Dict[int, int] = {}
        self.keep: List[Any] = []

    def new(self, obj: Any) -> int:
        self.keep.append(obj)
        self.ids[id(obj)] = len(self.ids)
        return self.ids[id(obj)]

    def get(self, obj: Any) -> int:
        return self.ids[id(obj)]


class C06(Property):
    ID = "C06"
    SHAPE = [(R, "Record." + q) for q in (
        "add_protocluster", "get_protocluster", "get_protocluster_number", "clear_protoclusters",
        "add_candidate_cluster", "get_candidate_cluster", "get_candidate_cluster_number", "clear_candidate_clusters",
        "add_subregion", "get_subregion", "get_subregion_number", "clear_subregions",
        "add_region", "get_region", "get_region_number", "clear_regions",
        "create_candidate_clusters", "create_regions")] + [
        ("antismash/common/secmet/features/region/structures.py", "Region.__init__"),
        ("antismash/common/secmet/features/candidate_cluster/structures.py", "CandidateCluster.__init__"),
        ("antismash/common/secmet/features/cdscollection.py", "CDSCollection.__init__"),
        ("antismash/common/secmet/features/cdscollection.py", "CDSCollection.__lt__"),
        ("antismash/common/secmet/features/cdscollection.py", "CDSCollection.parent"),
        ("antismash/common/secmet/features/cdscollection.py", "CDSCollection.get_root"),
        (R, "Record.from_biopython"),
        ("antismash/common/secmet/features/feature.py", "Feature.__init__"),
        ("antismash/common/secmet/features/feature.py", "Feature.overlaps_with"),
        ("antismash/common/secmet/features/feature.py", "Feature.is_contained_by"),
        ("antismash/common/secmet/features/subregion.py", "SubRegion.__init__"),
        ("antismash/common/secmet/locations.py", "connect_locations"),
        ("antismash/common/secmet/locations.py", "locations_overlap"),
        ("antismash/common/secmet/locations.py", "location_contains_other"),
    ]
    RULE = ("operation histories (1-12 ops: add protocluster / subregion / candidate, the real create_candidate_clusters, "
            "add_region, create_regions, the four clear_*) on linear and circular DummyRecords of length 12..100000 with "
            "disjoint single-part genes; layouts: disjoint, nested, chained, touching, meeting only across the origin, "
            "several late sections reaching an origin-spanning first section (D7), whole-record areas; a malformed stream "
            "(areas past the end, overlapping add_region, create_regions twice); exhaustive in the deep tier: every set of "
            "<= 3 areas on the 2-grid of a line/ring of length 12 followed by create_regions, and every op order of length "
            "<= 4 over a fixed pool; non-trivial = a successful automatic region creation with >= 2 areas; distinct by canonical input")
    TRUSTED = ["candidate formation (create_candidates_from_protoclusters, C05) is not modelled: the groups the real code "
               "forms, in construction and insertion order, are fed to the model as mkCand/addCand steps",
               "get_cds_features_within_location is modelled by its meaning (genes contained in the location); only disjoint "
               "single-part genes are generated (C08 covers the general case)",
               "the CDS caches of the collections (add_cds) are not observed here (C08)",
               "Python list.sort / bisect_left on a comparison that is a strict weak order (proved for well-formed areas "
               "outside the recorded full-record class) behave like the stable insertion sort / first-not-smaller position of the model",
               "connect_locations on a ring is the C04 model; its set-of-bases meaning on a ring is carried by the C04 "
               "correspondence and re-checked here on every region through the executable component spec"]

    # ------------------------------------------------------------------ generators
    def rand_area(self, rng: random.Random, n: int, circ: bool, grid: int = 1, full: float = 0.03,
                  small: bool = False) -> Dict[str, Any]:
        pts = n // grid
        r = rng.random()
        if small:
            # short spans (a tenth of the record at most): components stay below half of a ring
            cap = max(1, pts // 10)
            width = rng.randrange(1, cap + 1) * grid
            if circ and r < 0.25 and pts >= 4:
                y = rng.randrange(1, cap + 1) * grid
                x = n - rng.randrange(1, cap + 1) * grid
                return crossing(x, n, y) if y <= x else simple(0, width)
            lo = rng.randrange(0, pts) * grid
            return simple(lo, min(n, lo + width))
        if r < full:
            return simple(0, n)
        if circ and r < 0.3 and pts >= 2:
            x = rng.randrange(1, pts) * grid
            y = rng.randrange(1, x // grid + 1) * grid
            return crossing(x, n, y)
        lo = rng.randrange(0, pts) * grid
        width = rng.choice([1, 1, 2, 3, pts // 4 or 1, pts // 2 or 1, rng.randrange(1, pts + 1)]) * grid
        hi = min(n, lo + width)
        return simple(lo, hi)

    def core_of(self, rng: random.Random, loc: Dict[str, Any]) -> Dict[str, Any]:
        parts = loc["parts"]
        if len(parts) == 2 and rng.random() < 0.5:
            a, b = parts
            return {"c": True, "parts": [[rng.randrange(a[0], a[1]), a[1], 1], [0, rng.randrange(1, b[1] + 1), 1]]}
        lo, hi, _ = parts[0]
        s = rng.randrange(lo, hi)
        e = rng.randrange(s + 1, hi + 1)
        return simple(s, e)

    def rand_cds(self, rng: random.Random, n: int) -> List[Dict[str, Any]]:
        if n < 12 or rng.random() < 0.3:
            return []
        k = rng.choice([1, 2, 3, 4])
        cuts = sorted(rng.sample(range(0, n + 1), 2 * k))
        return [simple(cuts[i], cuts[i + 1]) for i in range(0, 2 * k, 2) if cuts[i + 1] - cuts[i] >= 1]

    def rand_len(self, rng: random.Random) -> Tuple[int, int]:
        return rng.choice([(12, 1), (12, 2), (20, 2), (20, 1), (30, 3), (50, 5), (100, 1), (100, 10), (1000, 50),
                           (100000, 5000)])

    def layout_case(self, rng: random.Random) -> Dict[str, Any]:
        """areas, then candidates, then regions, then a few more operations"""
        n, grid = self.rand_len(rng)
        circ = rng.random() < 0.65
        ops: List[List[Any]] = []
        k = rng.choice([1, 2, 3, 3, 4, 4, 5, 6])
        special = rng.random()
        locs: List[Dict[str, Any]] = []
        if circ and special < 0.25 and n >= 20:
            # D7 shape: an origin-spanning area reached by several late sections
            x = rng.randrange(n // 2, n - 2)
            y = rng.randrange(1, n // 4)
            locs.append(crossing(x, n, y))
            pos = x - rng.randrange(1, 4)
            while pos < n - 1 and len(locs) < k + 1:
                w = rng.randrange(1, 4)
                locs.append(simple(max(pos, y), min(n, pos + w + (2 if rng.random() < 0.5 else 0))))
                pos += w + rng.randrange(1, 4)
            locs.append(simple(y + 1, max(y + 2, x - 5)) if rng.random() < 0.3 else self.rand_area(rng, n, circ, grid))
            locs = [l for l in locs if l["c"] or l["parts"][0][0] < l["parts"][0][1]]
            rng.shuffle(locs)
        elif special > 0.85:
            # dense protoclusters with long, mutually overlapping cores: several interleaved candidates whose
            # union is formed again as a neighbouring group (D40: the redundant candidate is dropped)
            k = rng.choice([3, 4, 4, 5])
            for _ in range(k):
                lo = rng.randrange(0, max(1, n // 2))
                hi = rng.randrange(min(n - 1, lo + n // 3), n) + 1
                loc = simple(lo, min(n, hi)) if lo < min(n, hi) else simple(0, n)
                if circ and rng.random() < 0.25:
                    x = rng.randrange(1, n)
                    loc = crossing(x, n, rng.randrange(1, x + 1))
                a, b = (loc["parts"][0][0], loc["parts"][0][1])
                c1 = rng.randrange(a, b)
                c2 = rng.randrange(c1 + 1, b + 1)
                ops.append(["addProto", loc, simple(c1, c2)])
            ops.append(["createCands"])
            ops.append(["createRegions"])
            if rng.random() < 0.5:
                ops.append([rng.choice(CLEARS)])
            return {"len": n, "circ": circ, "cds": [], "ops": ops}
        else:
            small = circ and rng.random() < 0.6
            if small and n < 50:
                n, grid = rng.choice([(100, 1), (100, 5), (1000, 10), (100000, 1000)])
            locs = [self.rand_area(rng, n, circ, grid, small=small) for _ in range(k + (2 if small else 0))]
        if locs and rng.random() < 0.35:
            # areas sharing their coordinates (the same stretch annotated twice)
            for _ in range(rng.choice([1, 1, 2])):
                locs.insert(rng.randrange(len(locs) + 1), rng.choice(locs))
        same_kind = rng.random() < 0.3
        first_sub = rng.random() < 0.5
        for loc in locs:
            if (first_sub if same_kind else rng.random() < 0.5):
                ops.append(["addSub", loc])
            else:
                ops.append(["addProto", loc, self.core_of(rng, loc)])
        if any(o[0] == "addProto" for o in ops):
            ops.append(["createCands"])
        ops.append(["createRegions"])
        cds = self.rand_cds(rng, n)
        if rng.random() < 0.4:
            ops.append(["roundtrip"])
            cds = []
            if n > 2000:
                n, grid = 1000, max(1, grid // 100)
                ops = [self._clip(op, 1000) for op in ops]
        for _ in range(rng.choice([0, 0, 1, 2, 3])):
            ops.append(self.rand_op(rng, n, circ, grid, late=True))
        return {"len": n, "circ": circ, "cds": cds, "ops": ops[:14]}

    @staticmethod
    def _clip(op: List[Any], n: int) -> List[Any]:
        """scale the locations of an op from a record of 100000 down to one of 1000"""
        def scale(loc: Dict[str, Any]) -> Dict[str, Any]:
            parts = [[p[0] // 100, max(p[0] // 100 + 1, p[1] // 100), p[2]] for p in loc["parts"]]
            if loc["c"] and parts[1][1] > parts[0][0]:
                return {"c": False, "parts": [[0, n, 1]]}
            return {"c": loc["c"], "parts": parts}
        if op[0] == "addSub":
            return ["addSub", scale(op[1])]
        if op[0] == "addProto":
            loc = scale(op[1])
            lo, hi = loc["parts"][0][0], loc["parts"][0][1]
            return ["addProto", loc, {"c": False, "parts": [[lo, min(hi, lo + 1), 1]]}]
        return op

    def explicit_case(self, rng: random.Random) -> Dict[str, Any]:
        """create_regions(candidate_clusters=…, subregions=…) with explicitly passed lists — one of them often
           EMPTY while the record holds areas of that kind (e.g. two candidates given with subregions=[] and a
           subregion of the record bridging them): regions must be built from exactly the given areas"""
        n, grid = rng.choice([(100, 1), (100, 5), (1000, 10), (1000, 50), (50, 1)])
        circ = rng.random() < 0.4
        ops: List[List[Any]] = []
        k = rng.choice([2, 2, 3, 4])
        width = max(grid, n // (4 * k))
        starts = sorted(rng.sample(range(0, n - width, max(1, grid)), k)) if n - width > k * grid else [0]
        spans = [(a, min(n, a + rng.randrange(1, width // grid + 1) * grid)) for a in starts]
        for lo, hi in spans:
            loc = simple(lo, hi)
            if rng.random() < 0.6:
                ops.append(["addProto", loc, self.core_of(rng, loc)])
            else:
                ops.append(["addSub", loc])
        # areas of the other kind bridging neighbours
        for (lo1, hi1), (lo2, hi2) in zip(spans, spans[1:]):
            if rng.random() < 0.6 and hi1 - 1 > lo1 and lo2 + 1 < hi2:
                a, b = rng.randrange(lo1, hi1), rng.randrange(lo2 + 1, hi2 + 1)
                if a >= b:
                    continue
                loc = simple(a, b)
                if rng.random() < 0.7:
                    ops.append(["addSub", loc])
                else:
                    ops.append(["addProto", loc, self.core_of(rng, loc)])
        rng.shuffle(ops)
        if any(o[0] == "addProto" for o in ops):
            ops.append(["createCands"])
        r = rng.random()
        many = [rng.randrange(0, 8) for _ in range(rng.choice([1, 2, 3, 4]))]
        if r < 0.4:
            ops.append(["createRegionsWith", many, []])
        elif r < 0.7:
            ops.append(["createRegionsWith", [], many])
        elif r < 0.8:
            ops.append(["createRegionsWith", [], []])
        else:
            ops.append(["createRegionsWith", many, [rng.randrange(0, 8) for _ in range(rng.choice([1, 2]))]])
        if rng.random() < 0.4:
            ops.append(["clearRegions"])
            ops.append(rng.choice([["createRegions"], ["createRegionsWith", [], many], ["createRegionsWith", many, []]]))
        return {"len": n, "circ": circ, "cds": [], "ops": ops}

    def clear_case(self, rng: random.Random) -> Dict[str, Any]:
        """regions exist, then clears / explicit-list creations / re-creations in any order while every area
           ever constructed stays referenced (the dump follows the parent links of all of them)"""
        n, grid = rng.choice([(12, 1), (20, 2), (50, 5), (100, 1), (100, 10), (1000, 50)])
        circ = rng.random() < 0.5
        small = rng.random() < 0.7
        ops: List[List[Any]] = []
        for _ in range(rng.choice([2, 3, 4, 5])):
            loc = self.rand_area(rng, n, circ, grid, full=0.0, small=small and n >= 50)
            if rng.random() < 0.5:
                ops.append(["addSub", loc])
            else:
                ops.append(["addProto", loc, self.core_of(rng, loc)])
        if any(o[0] == "addProto" for o in ops):
            ops.append(["createCands"])
            if rng.random() < 0.3:
                ops.append(["mkCandOnly", [rng.randrange(0, 6) for _ in range(rng.choice([1, 2]))]])
        ops.append(["createRegions"] if rng.random() < 0.7 else
                   ["createRegionsWith", [rng.randrange(0, 6) for _ in range(rng.choice([0, 1, 2]))],
                    [rng.randrange(0, 6) for _ in range(rng.choice([0, 1, 2]))]])
        for _ in range(rng.choice([1, 2, 3, 4, 5])):
            r = rng.random()
            if r < 0.5:
                ops.append([rng.choice(CLEARS)])
            elif r < 0.62:
                ops.append(["createRegions"])
            elif r < 0.74:
                ops.append(["createRegionsWith", [rng.randrange(0, 6) for _ in range(rng.choice([0, 1, 2]))],
                            [rng.randrange(0, 6) for _ in range(rng.choice([0, 1, 2]))]])
            elif r < 0.8:
                ops.append(["addPool", rng.randrange(0, 4)])
            elif r < 0.88:
                ops.append(["roundtrip"])
            else:
                ops.append(self.rand_op(rng, n, circ, grid, late=True))
        return {"len": n, "circ": circ, "cds": [], "ops": ops}

    def rand_op(self, rng: random.Random, n: int, circ: bool, grid: int, late: bool = False) -> List[Any]:
        r = rng.random()
        if r < (0.15 if late else 0.3):
            loc = self.rand_area(rng, n, circ, grid)
            return ["addProto", loc, self.core_of(rng, loc)]
        if r < (0.3 if late else 0.5):
            return ["addSub", self.rand_area(rng, n, circ, grid)]
        if r < 0.55:
            return ["addCand", [rng.randrange(0, 6) for _ in range(rng.choice([1, 1, 2, 3]))]]
        if r < 0.65:
            return ["createCands"]
        if r < 0.8:
            return ["createRegions"]
        if r < 0.85:
            return ["addRegion", [rng.randrange(0, 6) for _ in range(rng.choice([0, 1, 1, 2]))],
                    [rng.randrange(0, 6) for _ in range(rng.choice([0, 1, 1]))]]
        if r < 0.88:
            return ["mkCandOnly", [rng.randrange(0, 6) for _ in range(rng.choice([1, 2]))]]
        if r < 0.9:
            return ["addPool", rng.randrange(0, 4)]
        if r < 0.93:
            return ["createRegionsWith", [rng.randrange(0, 6) for _ in range(rng.choice([0, 1, 2]))],
                    [rng.randrange(0, 6) for _ in range(rng.choice([0, 1, 2]))]]
        return [rng.choice(CLEARS)]

    def history_case(self, rng: random.Random) -> Dict[str, Any]:
        n, grid = self.rand_len(rng)
        circ = rng.random() < 0.6
        ops = [self.rand_op(rng, n, circ, grid) for _ in range(rng.randrange(1, 13))]
        return {"len": n, "circ": circ, "cds": self.rand_cds(rng, n), "ops": ops}

    def manual_regions_case(self, rng: random.Random) -> Dict[str, Any]:
        """subregions, then add_region one by one in random order (overlap rejection, ordered insert; D39)"""
        n, grid = self.rand_len(rng)
        circ = rng.random() < 0.7
        k = rng.choice([2, 3, 3, 4, 5])
        ops: List[List[Any]] = [["addSub", self.rand_area(rng, n, circ, grid, full=0.0)] for _ in range(k)]
        order = list(range(k))
        rng.shuffle(order)
        for i in order:
            ops.append(["addRegion", [], [i]])
        if rng.random() < 0.3:
            ops.append([rng.choice(CLEARS)])
        return {"len": n, "circ": circ, "cds": self.rand_cds(rng, n), "ops": ops}

    def malformed_case(self, rng: random.Random) -> Dict[str, Any]:
        n, grid = self.rand_len(rng)
        circ = rng.random() < 0.5
        ops: List[List[Any]] = []
        for _ in range(rng.randrange(1, 7)):
            r = rng.random()
            if r < 0.25:
                lo = rng.randrange(0, n)
                ops.append(["addSub", simple(lo, n + rng.randrange(1, 5))])
            elif r < 0.4:
                lo = rng.randrange(0, n)
                loc = simple(lo, n + rng.randrange(1, 5))
                ops.append(["addProto", loc, simple(lo, lo + 1)])
            elif r < 0.6:
                ops.append(["addRegion", [], [rng.randrange(0, 4)]])
            elif r < 0.75:
                ops.append(["createRegions"])
            else:
                ops.append(self.rand_op(rng, n, circ, grid))
        return {"len": n, "circ": circ, "cds": [], "ops": ops}

    def small_scope(self, rng: random.Random, full: bool) -> Iterator[Dict[str, Any]]:
        n = 12
        pts = list(range(0, n + 1, 2))
        sims = [simple(a, b) for a in pts for b in pts if a < b]
        cross = [crossing(x, n, y) for x in pts[1:-1] for y in pts[1:] if y <= x]
        for circ in (False, True):
            locs = sims + (cross if circ else [])
            for k in (1, 2, 3, 4):
                if k == 4:
                    # four areas: sampled (exhaustive would be ~10^5 per topology)
                    combos = [tuple(sorted(rng.randrange(len(locs)) for _ in range(4))) for _ in range(6000 if full else 150)]
                else:
                    combos = list(itertools.combinations_with_replacement(range(len(locs)), k))
                if not full and len(combos) > 600:
                    combos = rng.sample(combos, 600)
                for combo in combos:
                    ops = [["addSub", locs[i]] for i in combo] + [["createRegions"]]
                    yield {"len": n, "circ": circ, "cds": [], "ops": ops}
        # every op order of length <= 4 (<= 3 in the quick tier) over a fixed pool
        pool: List[List[Any]] = [["addSub", simple(2, 6)], ["addSub", crossing(10, 12, 2)], ["addSub", simple(4, 11)],
                                 ["addProto", simple(0, 4), simple(1, 2)], ["addProto", simple(8, 12), simple(9, 10)],
                                 ["createCands"], ["createRegions"], ["clearProtos"], ["clearCands"], ["clearSubs"],
                                 ["clearRegions"], ["addRegion", [0], [0]], ["createRegionsWith", [0], [1]],
                                 ["addSub", simple(2, 6)], ["roundtrip"]]
        depth = 4 if full else 3
        for length in range(1, depth + 2):
            if length == depth + 1:
                # one op longer: sampled
                orders = [tuple(rng.randrange(len(pool)) for _ in range(length)) for _ in range(10000 if full else 300)]
            else:
                orders = list(itertools.product(range(len(pool)), repeat=length))
            if not full and len(orders) > 800:
                orders = rng.sample(orders, 800)
            for order in orders:
                ops = [pool[i] for i in order]
                yield {"len": n, "circ": True, "cds": [] if ["roundtrip"] in ops else [simple(3, 5)], "ops": ops}

    def cases(self, rng: random.Random, tier: str, deep: bool) -> Iterator[Dict[str, Any]]:
        total = 0
        for case in self.small_scope(rng, full=deep):
            total += 1
            yield case
        self.exhaustive_done = deep
        self.extra_coverage = {"small_scope_cases": total}
        budget = 40000 if deep else 3000
        for i in range(budget):
            r = i % 10
            if r < 5:
                yield self.layout_case(rng)
            elif r < 6:
                yield self.clear_case(rng) if i % 20 < 10 else self.explicit_case(rng)
            elif r < 8:
                yield self.history_case(rng)
            elif r < 9:
                yield self.manual_regions_case(rng)
            else:
                yield self.malformed_case(rng)

    # ------------------------------------------------------------------ implementation adapter
    def run_impl(self, case: Dict[str, Any]) -> Dict[str, Any]:
        from antismash.common.secmet.features import CandidateCluster, Protocluster, Region, SubRegion
        from antismash.common.secmet.features.candidate_cluster import structures as cand_structures
        from antismash.common.secmet.features.cdscollection import CDSCollection
        from antismash.common.secmet.record import Record
        from antismash.common.secmet.test.helpers import DummyCDS, DummyRecord

        n = case["len"]
        rec = DummyRecord(length=n, circular=case["circ"], seq="A" * min(n, 2000))
        rec.length = n
        cdses = []
        for i, loc in enumerate(case.get("cds", [])):
            cds = DummyCDS(location=common.make_location(loc), locus_tag=f"g{i}", translation="MMM")
            rec.add_cds_feature(cds)
            cdses.append(cds)
        ids = _Ids()
        wrap = n if case["circ"] else None
        groups: List[Dict[str, Any]] = []

        pool: List[Any] = []     # candidate clusters constructed by "mkCandOnly", not (yet) in the record

        def pick(seq: Tuple[Any, ...], positions: List[int]) -> List[Any]:
            return [seq[p % len(seq)] for p in positions] if seq else []

        def dedupe(items: List[Any]) -> List[Any]:
            out: List[Any] = []
            for item in items:
                if not any(item is o for o in out):
                    out.append(item)
            return out

        def live_parent(area: Any) -> Any:
            """None: no parent; 1: the parent is a region / candidate cluster of the record that lists the area;
               -1: anything else (a stale link)"""
            parent = area.parent
            if parent is None:
                return None
            if any(parent is r for r in rec.get_regions()):
                return 1 if any(area is c for c in tuple(parent.candidate_clusters) + tuple(parent.subregions)) else -1
            if any(parent is c for c in rec.get_candidate_clusters()):
                return 1 if any(area is p for p in parent.protoclusters) else -1
            if any(parent is c for c in pool):
                # a candidate cluster the history constructed on purpose without storing it
                return 2 if any(area is p for p in parent.protoclusters) else -1
            return -1

        def root_ok(area: Any) -> bool:
            """get_root() of every held area is the area itself or ends at a live member of the record"""
            node, steps = area, 0
            while node.parent is not None and steps < 5:
                node, steps = node.parent, steps + 1
                if not (any(node is r for r in rec.get_regions()) or any(node is c for c in rec.get_candidate_clusters())
                        or any(node is c for c in pool)):
                    return False
            return area.get_root() is node

        def roundtrip() -> List[str]:
            """numbers written on the features identify the same features after to_biopython -> from_biopython"""
            from antismash.common.secmet.record import Record as RealRecord
            problems: List[str] = []
            # only a self-contained record can be written: regions made of areas that are not stored in it cannot
            for region in rec.get_regions():
                for child in region.candidate_clusters:
                    if not any(child is c for c in rec.get_candidate_clusters()):
                        return problems
                for child in region.subregions:
                    if not any(child is x for x in rec.get_subregions()):
                        return problems
            for cand in rec.get_candidate_clusters():
                for child in cand.protoclusters:
                    if not any(child is p for p in rec.get_protoclusters()):
                        return problems
            try:
                bio = rec.to_biopython()
                protos_w: Dict[int, str] = {}
                subs_w: Dict[int, str] = {}
                cands_w: Dict[int, Any] = {}
                regions_w: Dict[int, Any] = {}
                for feat in bio.features:
                    q = feat.qualifiers
                    if feat.type == "protocluster":
                        protos_w[int(q["protocluster_number"][0])] = q["product"][0]
                    elif feat.type == "subregion":
                        subs_w[int(q["subregion_number"][0])] = q["label"][0]
                for feat in bio.features:
                    q = feat.qualifiers
                    if feat.type == "cand_cluster":
                        cands_w[int(q["candidate_cluster_number"][0])] = tuple(protos_w.get(int(x)) for x in q["protoclusters"])
                for feat in bio.features:
                    q = feat.qualifiers
                    if feat.type == "region":
                        regions_w[int(q["region_number"][0])] = (
                            sorted(cands_w.get(int(x), ()) for x in q.get("candidate_cluster_numbers", [])),
                            sorted(subs_w.get(int(x), "?") for x in q.get("subregion_numbers", [])))
                again = RealRecord.from_biopython(bio, taxon="bacteria")
                protos_r = {p.get_protocluster_number(): p.product for p in again.get_protoclusters()}
                subs_r = {x.get_subregion_number(): x.label for x in again.get_subregions()}
                cands_r = {c.get_candidate_cluster_number(): tuple(p.product for p in c.protoclusters)
                           for c in again.get_candidate_clusters()}
                regions_r = {r.get_region_number(): (sorted(tuple(p.product for p in c.protoclusters) for c in r.candidate_clusters),
                                                     sorted(x.label for x in r.subregions)) for r in again.get_regions()}
                for name, written, read in (("protocluster", protos_w, protos_r), ("subregion", subs_w, subs_r),
                                            ("candidate cluster", cands_w, cands_r), ("region", regions_w, regions_r)):
                    if written != read:
                        problems.append(f"{name} numbers written {written} identify {read} after reading back")
            except Exception as exc:  # pylint: disable=broad-except
                problems.append(f"write/read round trip failed: {type(exc).__name__}: {str(exc)[:150]}")
            return problems

        def region_number(region: Any) -> Any:
            for i, r in enumerate(rec.get_regions()):
                if r is region:
                    return i + 1
            return -1

        def dump() -> Dict[str, Any]:
            lookup_ok = True

            def number(getter: Any, item: Any, fetch: Any) -> Any:
                nonlocal lookup_ok
                try:
                    num = getter(item)
                except ValueError:
                    lookup_ok = False
                    return None
                try:
                    if fetch(num) is not item:
                        lookup_ok = False
                except IndexError:
                    lookup_ok = False
                return num

            cands = rec.get_candidate_clusters()
            protos = []
            for p in rec.get_protoclusters():
                parent: Any = None
                if p.parent is not None:
                    parent = (ids.get(p.parent) if any(p.parent is c for c in cands)
                              else (-2 if any(p.parent is c for c in pool) else -1))
                protos.append([ids.get(p), number(rec.get_protocluster_number, p, rec.get_protocluster),
                               common.location_json(p.location), parent])
            cand_rows = [[ids.get(c), number(rec.get_candidate_cluster_number, c, rec.get_candidate_cluster),
                          common.location_json(c.location), None if c.parent is None else region_number(c.parent),
                          [ids.get(p) for p in c.protoclusters]] for c in cands]
            sub_rows = [[ids.get(s), number(rec.get_subregion_number, s, rec.get_subregion),
                         common.location_json(s.location), None if s.parent is None else region_number(s.parent)]
                        for s in rec.get_subregions()]
            region_rows = [[number(rec.get_region_number, r, rec.get_region), common.location_json(r.location),
                            [ids.get(c) for c in r.candidate_clusters], [ids.get(s) for s in r.subregions],
                            sorted(i for i, cds in enumerate(cdses) if cds in r.cds_children)]
                           for r in rec.get_regions()]
            cds_rows = [None if cds.region is None else region_number(cds.region) for cds in cdses]
            held = [[ids.get(a), live_parent(a)] for a in ids.keep]
            return {"protos": protos, "cands": cand_rows, "subs": sub_rows, "regions": region_rows, "cds": cds_rows,
                    "held": held, "roots_ok": all(root_ok(a) for a in ids.keep),
                    "lookup_ok": lookup_ok, "region_parents": [r.parent is None for r in rec.get_regions()]}

        logging.disable(logging.CRITICAL)
        try:
            for op in case["ops"]:
                prim: List[List[Any]] = []
                try:
                    kind = op[0]
                    if kind == "addProto":
                        prim.append(["addProto", op[1]])
                        proto = Protocluster(common.make_location(op[2]), common.make_location(op[1]), tool="t",
                                             product=f"p{len(ids.ids)}", cutoff=1, neighbourhood_range=0,
                                             detection_rule="r")
                        ids.new(proto)
                        rec.add_protocluster(proto)
                    elif kind == "addSub":
                        prim.append(["addSub", op[1]])
                        sub = SubRegion(common.make_location(op[1]), tool="t", label=f"s{len(ids.ids)}")
                        ids.new(sub)
                        rec.add_subregion(sub)
                    elif kind == "addCand":
                        members = pick(rec.get_protoclusters(), op[1])
                        if not members:
                            continue
                        prim.append(["mkCand", [ids.get(p) for p in members]])
                        cand = CandidateCluster(CandidateCluster.kinds.NEIGHBOURING, members, circular_wrap_point=wrap)
                        prim.append(["addCand", ids.new(cand)])
                        rec.add_candidate_cluster(cand)
                    elif kind == "mkCandOnly":
                        # a candidate cluster that is constructed but not stored in the record
                        members = pick(rec.get_protoclusters(), op[1])
                        if not members:
                            continue
                        prim.append(["mkCand", [ids.get(p) for p in members]])
                        cand = CandidateCluster(CandidateCluster.kinds.NEIGHBOURING, members, circular_wrap_point=wrap)
                        ids.new(cand)
                        pool.append(cand)
                    elif kind == "addPool":
                        if not pool:
                            continue
                        cand = pool.pop(op[1] % len(pool))
                        prim.append(["addCand", ids.get(cand)])
                        rec.add_candidate_cluster(cand)
                    elif kind == "createRegionsWith":
                        cs = dedupe(pick(tuple(rec.get_candidate_clusters()) + tuple(pool), op[1]))
                        ss = dedupe(pick(rec.get_subregions(), op[2]))
                        prim.append(["createRegionsWith", [ids.get(c) for c in cs], [ids.get(x) for x in ss]])
                        given = [[ids.get(a), common.location_json(a.location)] for a in cs + ss]
                        rec.create_regions(candidate_clusters=cs, subregions=ss)
                    elif kind == "roundtrip":
                        if n > 2000 or cdses:
                            continue
                        rt_problems = roundtrip()
                    elif kind == "createCands":
                        orig_init = cand_structures.CandidateCluster.__init__
                        orig_add = Record.add_candidate_cluster
                        orig_parent = CDSCollection.parent

                        def logged_parent(self: Any, parent: Any) -> None:
                            # assignments outside a constructor (the new object is registered only after __init__)
                            if parent is not None and id(parent) in ids.ids and id(self) in ids.ids:
                                prim.append(["reparent", [ids.get(self)], ids.get(parent)])
                            orig_parent.fset(self, parent)

                        def logged_init(self: Any, kind_: Any, protoclusters: Any, *args: Any, **kwargs: Any) -> None:
                            # the construction is logged first: the parent links are set even if a later check fails
                            prim.append(["mkCand", [ids.get(p) for p in protoclusters]])
                            orig_init(self, kind_, protoclusters, *args, **kwargs)
                            ids.new(self)

                        def logged_add(self: Any, cluster: Any) -> None:
                            prim.append(["addCand", ids.get(cluster)])
                            orig_add(self, cluster)

                        cand_structures.CandidateCluster.__init__ = logged_init  # type: ignore
                        Record.add_candidate_cluster = logged_add  # type: ignore
                        CDSCollection.parent = property(orig_parent.fget, logged_parent)  # type: ignore
                        try:
                            rec.create_candidate_clusters()
                        finally:
                            cand_structures.CandidateCluster.__init__ = orig_init  # type: ignore
                            Record.add_candidate_cluster = orig_add  # type: ignore
                            CDSCollection.parent = orig_parent  # type: ignore
                    elif kind == "addRegion":
                        cs = pick(rec.get_candidate_clusters(), op[1])
                        ss = pick(rec.get_subregions(), op[2])
                        if not cs and not ss:
                            continue
                        prim.append(["addRegion", [ids.get(c) for c in cs], [ids.get(s) for s in ss]])
                        rec.add_region(Region(cs, ss))
                    elif kind == "createRegions":
                        prim.append(["createRegions"])
                        rec.create_regions()
                    elif kind == "clearProtos":
                        prim.append([kind])
                        rec.clear_protoclusters()
                    elif kind == "clearCands":
                        prim.append([kind])
                        rec.clear_candidate_clusters()
                    elif kind == "clearSubs":
                        prim.append([kind])
                        rec.clear_subregions()
                    elif kind == "clearRegions":
                        prim.append([kind])
                        rec.clear_regions()
                    else:
                        raise ValueError(f"unknown op {kind}")
                except Exception as exc:  # pylint: disable=broad-except
                    group = {"op": op[0], "ops": prim, "impl": {"err": err_kind(exc), "msg": str(exc)[:200]}}
                    if op[0] == "createRegionsWith" and prim:
                        group["given"] = given
                    groups.append(group)
                    break
                state = dump()
                if kind == "roundtrip":
                    state["rt"] = rt_problems
                group = {"op": op[0], "ops": prim, "impl": state}
                if kind == "createRegionsWith":
                    group["given"] = given
                groups.append(group)
        finally:
            logging.disable(logging.NOTSET)
        return {"groups": groups}

    def driver_line(self, case: Dict[str, Any], obs: Dict[str, Any]) -> Optional[Dict[str, Any]]:
        if "groups" not in obs:
            return {"len": case["len"], "circ": case["circ"], "cds": case.get("cds", []), "groups": []}
        return {"len": case["len"], "circ": case["circ"], "cds": case.get("cds", []),
                "groups": [dict({"ops": g["ops"], "impl": g["impl"]}, **({"given": g["given"]} if "given" in g else {}))
                           for g in obs["groups"]]}

    # ------------------------------------------------------------------ judge
    MODEL_KEYS = ("protos", "cands", "subs", "regions", "cds", "held")

    KF_ORDER = "KF-C06-full-record-order"
    KF_HALF = "KF-C06-half-record-component"

    def judge(self, case: Dict[str, Any], obs: Dict[str, Any], drv: Optional[Dict[str, Any]]) -> Judgement:
        assert drv is not None
        if "steps" not in drv or "groups" not in obs:
            return Judgement(False, True, detail=f"driver/adapter error: {drv.get('err')} {obs.get('err')} {obs.get('_trace', '')[-300:]}")
        wf = bool(drv.get("scope", True))
        corr, spec_ok = True, True
        detail = ""
        tags: List[str] = ["circular" if case["circ"] else "linear"]
        nontrivial = False
        regions_before = False
        clash = half = False           # the two recorded classes, accumulated over the history so far
        order_failed = component_failed = foreign_member = False
        for i, (g, step) in enumerate(zip(obs["groups"], drv["steps"])):
            impl, model, spec = g["impl"], step["model"], step["spec"]
            op = g["op"]
            half = half or bool(spec.get("half"))
            clash = clash or bool(spec.get("clash"))
            # ---- correspondence
            if "err" in impl:
                tags.append("err:" + impl["err"].split(":")[0])
                if not ("err" in model and model["err"] == impl["err"].split(":")[0]):
                    corr = False
                    detail = detail or f"step {i} ({op}): implementation raised {impl['err']} ({impl.get('msg')}), model {str(model)[:300]}"
                # ---- spec: automatic region creation must succeed on well-formed areas
                must_succeed = (op in ("createRegions", "createRegionsWith") and not regions_before) or op in CLEARS
                if op == "createRegionsWith":
                    # the recorded ring classes are judged on the given areas
                    half = half or any(s_.get("given") and s_["given"].get("half") for s_ in drv["steps"][:i + 1])
                if must_succeed and wf:
                    spec_ok = False
                    component_failed = True
                    detail = f"step {i} ({op}): region creation failed with {impl['err']}: {impl.get('msg')}; " + detail
                break
            if "err" in model or any(model.get(k) != impl.get(k) for k in self.MODEL_KEYS):
                corr = False
                if not detail:
                    diff = [k for k in self.MODEL_KEYS if "err" not in model and model.get(k) != impl.get(k)]
                    detail = (f"step {i} ({op}): model differs in {diff or 'error'}: model "
                              f"{ {k: model.get(k) for k in diff} if diff else model} vs implementation { {k: impl.get(k) for k in diff} }")
            # ---- spec on the implementation's dump
            problems: List[str] = []
            for key in ("order_protos", "order_cands", "order_subs", "order_regions"):
                if not spec[key]:
                    problems.append(key.replace("order_", "numbering/order of "))
                    order_failed = True
            if not impl["lookup_ok"]:
                problems.append("get_X(get_X_number(x)) is not x")
            if any(row[3] == -1 for row in impl["protos"] + impl["cands"] + impl["subs"]):
                problems.append("stale parent link")
            if any(row[1] == -1 for row in impl["held"]):
                problems.append("stale parent link on an area that is held outside the record's lists")
            if not impl["roots_ok"]:
                problems.append("get_root() of a held area leaves the record")
            if impl.get("rt"):
                problems.append("; ".join(impl["rt"]))
                order_failed = True      # inside the full-record class the order depends on the insertion order
            if any(v == -1 for v in impl["cds"]):
                problems.append("stale cds.region link")
            if not all(impl["region_parents"]):
                problems.append("region with a parent")
            if not spec["disjoint"]:
                problems.append("regions overlap")
            for ridx, row in enumerate(impl["regions"]):
                if any(impl["cds"][c] != ridx + 1 for c in row[4]):
                    problems.append("cds.region does not point at the region holding the cds")
            gs = step.get("given")
            if op == "createRegionsWith" and gs and not regions_before:
                # create_regions(candidate_clusters=…, subregions=…): regions are built from exactly the given areas
                half = half or bool(gs.get("half"))
                clash = clash or bool(gs.get("clash"))
                if not gs["members_given"]:
                    foreign_member = True
                    problems.append("a region lists an area that was not passed to create_regions(candidate_clusters=…, "
                                    "subregions=…)")
                for key in ("partition", "exact", "wf"):
                    if not gs[key]:
                        problems.append(f"regions are not the components of the given areas ({key}); expected classes "
                                        f"{gs['classes']}")
                        component_failed = True
                tags.append("explicit-lists" + ("-empty-arg" if (not g["ops"][-1][1] or not g["ops"][-1][2]) else ""))
                if impl["regions"]:
                    nontrivial = True
            if step["expect_components"]:
                for key in ("partition", "exact", "wf"):
                    if not spec[key]:
                        problems.append(f"regions are not the components ({key}); expected classes {spec['classes']}")
                        component_failed = True
                parent_of = {}
                for ridx, row in enumerate(impl["regions"]):
                    for member in row[2] + row[3]:
                        parent_of[member] = ridx + 1
                for row in impl["cands"] + impl["subs"]:
                    if row[3] != parent_of.get(row[0]):
                        problems.append("area's parent is not its region")
                        break
                if len(impl["regions"]) >= 1 and len(impl["cands"]) + len(impl["subs"]) >= 2:
                    nontrivial = True
                if any(r[1]["c"] for r in impl["regions"]):
                    tags.append("origin-spanning-region")
                tags.append(f"regions={min(len(impl['regions']), 4)}")
            if problems and spec_ok:
                spec_ok = False
                detail = f"step {i} ({op}): " + "; ".join(problems) + (" | " + detail if detail else "")
            regions_before = bool(impl["regions"])
            if op == "createCands" and impl["cands"]:
                tags.append("real-candidates")
            if not spec_ok:
                break
        in_scope = wf and not clash and not half
        tags.append("in-scope" if in_scope else ("malformed" if not wf else "recorded-class"))
        # a recorded class only excuses the kind of failure it stands for
        known = None
        if not spec_ok and foreign_member:
            known = None      # no recorded class excuses a region made of areas that were not given
        elif not spec_ok:
            if order_failed and clash:
                known = self.KF_ORDER
            elif component_failed and not order_failed and half:
                known = self.KF_HALF
        elif not corr and clash:
            known = self.KF_ORDER      # the sort of a non-transitive comparison is not modelled
        return Judgement(corr, spec_ok, in_scope=in_scope, known=known,
                         nontrivial=nontrivial, tags=tuple(dict.fromkeys(tags)), detail=detail)

    # ------------------------------------------------------------------ shrinking
    def shrink(self, case: Dict[str, Any]) -> Iterator[Dict[str, Any]]:
        ops = case["ops"]
        for i in range(len(ops)):
            yield dict(case, ops=ops[:i] + ops[i + 1:])
        if case.get("cds"):
            yield dict(case, cds=[])
        for i, op in enumerate(ops):
            if op[0] == "addProto":
                yield dict(case, ops=ops[:i] + [["addSub", op[1]]] + ops[i + 1:])


PROP = C06
