"""C09 — annotations placed inside a gene cover the nucleotides that encode them.

Implementation under test (all real, in-process):
  Feature.get_sub_location_from_protein_coordinates, get_sub_location_from_offsets,
  convert_protein_position_to_dna, frameshift_location_by_qualifier (+ undo),
  Prepeptide.to_biopython (leader/core/tail locations), TTAResults.new_feature_from_other
  (+ its JSON round trip), generate_motif_features / generate_domain_features (callers), and
  Biopython's `location.extract(seq).translate()` on a random DNA string stored in the case.
"""
from __future__ import annotations

import itertools
import random
from typing import Any, Dict, Iterator, List, Optional, Tuple

from ..framework import Judgement, Property, err_kind
from . import common

import logging
import warnings
warnings.filterwarnings("ignore", message="Partial codon")
logging.disable(logging.CRITICAL)   # antismash logs warnings for skipped codons; the check prints nothing on success

COMP = {"A": "T", "C": "G", "G": "C", "T": "A"}
LOC_PY = "antismash/common/secmet/locations.py"


def _err(exc: BaseException) -> Dict[str, Any]:
    kind = err_kind(exc)
    if kind.startswith("value-error"):
        kind = "value-error"     # SecmetInvalidInputError etc.: the property only cares that it is refused
    return {"err": kind, "msg": str(exc)[:160]}


def transcribed(loc: Dict[str, Any], dna: str, positions: List[int]) -> str:
    """the string Biopython must extract for these positions (complement on the reverse strand)"""
    rev = loc["parts"][0][2] == -1
    return "".join(COMP[dna[i]] if rev else dna[i] for i in positions)


class C09(Property):
    ID = "C09"
    SHAPE = [(LOC_PY, "convert_protein_position_to_dna"),
             (LOC_PY, "get_sub_location_from_offsets"),
             (LOC_PY, "_adjust_location_by_offset"),
             (LOC_PY, "frameshift_location_by_qualifier"),
             (LOC_PY, "location_bridges_origin"),
             ("antismash/common/secmet/features/feature.py", "Feature.get_sub_location_from_protein_coordinates"),
             ("antismash/common/secmet/features/feature.py", "Feature.from_biopython"),
             ("antismash/common/secmet/features/feature.py", "Feature.start"),
             ("antismash/common/secmet/features/feature.py", "Feature.end"),
             ("antismash/common/secmet/features/feature.py", "Feature.__init__"),
             ("antismash/common/secmet/features/cds_feature.py", "CDSFeature.from_biopython"),
             ("antismash/common/secmet/features/cds_feature.py", "_ensure_valid_translation"),
             ("antismash/common/secmet/features/cds_feature.py", "CDSFeature.translation"),
             ("antismash/common/secmet/record.py", "Record.from_biopython"),
             ("antismash/common/secmet/record.py", "Record.to_biopython"),
             ("antismash/common/secmet/record.py", "Record.add_biopython_feature"),
             (LOC_PY, "remove_redundant_exons"),
             (LOC_PY, "location_from_biopython"),
             ("antismash/modules/tta/tta.py", "TTAResults.add_to_record"),
             ("antismash/common/secmet/features/feature.py", "Feature.to_biopython"),
             ("antismash/common/secmet/features/prepeptide.py", "Prepeptide.to_biopython"),
             ("antismash/common/secmet/features/prepeptide.py", "Prepeptide.from_biopython"),
             ("antismash/common/secmet/features/prepeptide.py", "Prepeptide.to_json"),
             ("antismash/common/secmet/features/prepeptide.py", "Prepeptide.from_json"),
             ("antismash/common/secmet/features/prepeptide.py", "_combine_sections"),
             (LOC_PY, "build_location_from_others"),
             (LOC_PY, "location_from_string"),
             ("antismash/modules/tta/tta.py", "TTAResults.new_feature_from_other"),
             ("antismash/modules/tta/tta.py", "TTAResults.new_feature_from_location"),
             ("antismash/modules/tta/tta.py", "TTAResults.to_json"),
             ("antismash/modules/tta/tta.py", "TTAResults.from_json"),
             ("antismash/modules/tta/tta.py", "detect"),
             ("antismash/common/hmmer.py", "build_hits"),
             ("antismash/common/hmmer.py", "HmmerHit.__post_init__"),
             ("antismash/common/hmmer.py", "HmmerResults.to_json"),
             ("antismash/common/hmmer.py", "HmmerResults.from_json"),
             ("antismash/common/hmmer.py", "HmmerResults.add_to_record"),
             ("antismash/detection/nrps_pks_domains/domain_identification.py", "generate_domain_features"),
             ("antismash/detection/nrps_pks_domains/domain_identification.py", "generate_motif_features"),
             ("antismash/common/secmet/record.py", "Record.get_aa_translation_from_location")]
    RULE = ("genes of 1-4 exons (exon lengths 1..21 incl. non-multiples of 3, introns 0..10, overlapping exons by 1-2 "
            "bases, both strands, strand 0/None rarely, shuffled exon order rarely) laid out in transcription order on a "
            "ring and cut at a random origin (so ~35% span the origin, exons themselves may be split by it) x protein "
            "ranges [s,e) biased to exon borders and to the invalid edges (s=-1, s>=e, e=total+1) x nucleotide offsets x "
            "codon_start 0..4 with undo (int and text forms) x leader/tail lengths (positioned, and written out + re-read via "
            "Prepeptide.from_biopython + positioned again) x TTA codon offsets x partial genes (fuzzy </> on any part edge, "
            "ends beyond the product) x pfam/motif/domain feature creation on a real record x CDS read through Record.from_biopython "
            "with its own /transl_table (4/25/6/2/3/1/11 or none), no or invalid /translation and table-dependent codons in "
            "frame x annotated circular records (gene + motif + TTA marker + prepeptide) written with Record.to_biopython and "
            "read back with Record.from_biopython; a random DNA string per case; "
            "thorough/deep: every gene with <=3 exons on a 1-grid of total length <=9 (+ all cuts of a ring of 12) x all "
            "ranges; non-trivial = multi-exon or origin-spanning gene with a valid range; distinct by canonical input")
    TRUSTED = ["Biopython: SimpleLocation/CompoundLocation.extract concatenates parts in list order and reverse-complements "
               "reverse parts (compared on every case with the positions `bases` lists), Seq.translate, len(), FeatureLocation "
               "constructor rejecting end < start",
               "mixed-strand compounds, non-ASCII digits / the empty string as codon_start are not generated; the fuzziness "
               "of the edges of returned locations is not compared (coordinates are)",
               "convert_protein_position_to_dna on compound locations is proved for the standard exon order of either "
               "strand; for other orders (origin-spanning, overlapping exons) it is modelled and compared only (since fix D8 "
               "it is no longer used for compound locations)",
               "Prepeptide.from_biopython on the unrepaired tree: part structure of the rebuilt location is not compared "
               "(bases and strand are; the structure is KF-C10-reverse-prepeptide-location)"]

    # ------------------------------------------------------------------ generators
    @staticmethod
    def layout(lens: List[int], gaps: List[int], strand: Any, length: int, origin: int) -> List[List[Any]]:
        """exons given in transcription coordinates -> record parts (transcription order) on a ring of `length`
           starting at `origin`; an exon crossing the origin is split in two parts"""
        parts: List[List[Any]] = []
        t = 0
        rev = strand == -1
        for i, ln in enumerate(lens):
            if i:
                t += gaps[i - 1]
            if not rev:
                lo = (origin + t) % length
                hi = lo + ln
                if hi > length:
                    parts.append([lo, length, strand])
                    parts.append([0, hi - length, strand])
                else:
                    parts.append([lo, hi, strand])
            else:
                hi = (origin - t) % length
                if hi == 0:
                    hi = length
                lo = hi - ln
                if lo < 0:
                    parts.append([0, hi, strand])
                    parts.append([length + lo, length, strand])
                else:
                    parts.append([lo, hi, strand])
            t += ln
        return parts

    def rand_gene(self, rng: random.Random) -> Tuple[Dict[str, Any], int]:
        """a gene location a secmet Feature accepts (no two exons ending at the same coordinate)"""
        while True:
            loc, length = self._rand_gene(rng)
            if self.acceptable(loc):
                return loc, length

    @staticmethod
    def acceptable(loc: Dict[str, Any]) -> bool:
        ends = [p[1] for p in loc["parts"]]
        return len(set(ends)) == len(ends)

    def _rand_gene(self, rng: random.Random) -> Tuple[Dict[str, Any], int]:
        n = rng.choice([1, 1, 2, 2, 2, 3, 3, 4])
        lens = [rng.choice([1, 2, 3, 3, 4, 5, 6, 7, 8, 9, 10, 12, 15, 21]) for _ in range(n)]
        gaps = [rng.choice([0, 1, 2, 3, 4, 5, 10, 10, -1, -2] if rng.random() < 0.3 else [1, 2, 3, 5, 10])
                for _ in range(n - 1)]
        for i, g in enumerate(gaps):            # an overlap never swallows a whole exon
            if g < 0 and min(lens[i], lens[i + 1]) <= -g:
                gaps[i] = 0
        r = rng.random()
        strand: Any = 1 if r < 0.48 else -1 if r < 0.96 else 0 if r < 0.98 else None
        span = sum(lens) + sum(gaps)
        spanning = rng.random() < 0.35
        if spanning:
            length = span + rng.choice([0, 1, 2, 5, 20])
            if strand == -1:
                origin = rng.randrange(1, max(span, 2)) if span > 1 else 0
            else:
                origin = length - rng.randrange(1, max(span, 2)) if span > 1 else 0
        else:
            pad_l, pad_r = rng.choice([0, 0, 1, 7, 30]), rng.choice([0, 0, 1, 7, 30])
            length = span + pad_l + pad_r
            origin = pad_l if strand != -1 else pad_l + span
        length = max(length, span, 3)
        parts = self.layout(lens, gaps, strand, length, origin % length if strand != -1 else origin)
        if len(parts) > 1 and rng.random() < 0.04:
            rng.shuffle(parts)
        return {"c": len(parts) > 1, "parts": parts}, length

    @staticmethod
    def total_len(loc: Dict[str, Any]) -> int:
        return sum(p[1] - p[0] for p in loc["parts"])

    def borders(self, loc: Dict[str, Any]) -> List[int]:
        out, t = [], 0
        for p in loc["parts"]:
            t += p[1] - p[0]
            out.append(t)
        return out

    def rand_range(self, rng: random.Random, loc: Dict[str, Any], unit: int) -> Tuple[int, int]:
        total = self.total_len(loc) // unit
        marks = sorted({0, total, total - 1, 1} | {b // unit for b in self.borders(loc)}
                       | {b // unit + 1 for b in self.borders(loc)} | {b // unit - 1 for b in self.borders(loc)})
        r = rng.random()
        if r < 0.08:
            return rng.choice([(-1, 1), (0, total + 1), (total, total + 1), (2, 2), (3, 1), (0, 0), (-2, -1),
                               (total - 1, total + 2)])
        s = rng.choice(marks) if r < 0.6 else rng.randrange(0, max(total, 1))
        e = rng.choice(marks) if rng.random() < 0.5 else rng.randrange(0, max(total, 1) + 1)
        if s > e:
            s, e = e, s
        if s == e and rng.random() < 0.8:
            e = s + 1
        return s, e

    TABLE_CODONS = ["TGA", "TGA", "TAA", "TAG", "CTG", "ATA", "AGA", "AAA", "TTG", "GTG"]   # differ between tables 1/11/4/25/6/2/3

    def cds_table_case(self, rng: random.Random, loc: Dict[str, Any], dna: str) -> Dict[str, Any]:
        """a CDS read from a GenBank-like record with its own /transl_table (or none) and without a usable
           /translation; codons whose meaning depends on the table are planted in frame"""
        seq = list(dna)
        rev = loc["parts"][0][2] == -1
        positions = self.py_bases(loc)
        aa = len(positions) // 3
        for idx in rng.sample(range(aa), min(aa, rng.choice([1, 2, 3]))):
            codon = rng.choice(self.TABLE_CODONS) if idx else rng.choice(["ATG", "TTG", "GTG", "ATA"])
            for pos, ch in zip(positions[3 * idx:3 * idx + 3], codon):
                seq[pos] = COMP[ch] if rev else ch
        ranges = [[0, aa], [1, aa], [0, 1]] + [[rng.randrange(0, aa), rng.randrange(1, aa + 1)] for _ in range(3)]
        return {"kind": "cds_table", "loc": loc, "dna": "".join(seq),
                "qual": rng.choice([None, 4, 4, 4, 25, 6, 11, 1, 2, 3]),
                # a non-bacterial record cannot be circular: antiSMASH then re-orders exons that are not in the
                # standard order of their strand, which is not this property's business
                "taxon": rng.choice(["bacteria", "fungi"]) if self.standard_order(loc) else "bacteria",
                "given": rng.choice([None, None, None, "invalid"]), "ranges": [r for r in ranges if r[0] < r[1]]}

    @staticmethod
    def standard_order(loc: Dict[str, Any]) -> bool:
        parts = loc["parts"]
        rev = parts[0][2] == -1
        return not any((a[0] < b[0]) if rev else (a[0] > b[0]) for a, b in zip(parts, parts[1:]))

    @staticmethod
    def without_stops(loc: Dict[str, Any], dna: str) -> str:
        """replace the first base of every in-frame stop codon of the gene by C (never makes a new stop)"""
        seq = list(dna)
        rev = loc["parts"][0][2] == -1
        positions = C09.py_bases(loc)
        for i in range(0, len(positions) - 2, 3):
            codon = "".join(COMP[seq[p]] if rev else seq[p] for p in positions[i:i + 3])
            if codon in ("TAA", "TAG", "TGA"):
                seq[positions[i]] = "G" if rev else "C"
        return "".join(seq)

    @staticmethod
    def rand_dna(rng: random.Random, length: int) -> str:
        return "".join(rng.choice("ACGT") for _ in range(length))

    def cases(self, rng: random.Random, tier: str, deep: bool) -> Iterator[Dict[str, Any]]:
        n_genes = 12000 if deep else 2500
        for _ in range(n_genes):
            loc, length = self.rand_gene(rng)
            dna = self.rand_dna(rng, length)
            base = {"loc": loc, "dna": dna}
            for _ in range(3):
                s, e = self.rand_range(rng, loc, 3)
                yield dict(base, kind="sub", s=s, e=e)
            if loc["parts"][0][2] in (1, -1) and rng.random() < 0.25:
                # a partial gene: mostly the 3' end is open (the case the code truncates for), sometimes other ends
                n_parts = len(loc["parts"])
                fz = [[False, False] for _ in range(n_parts)]
                rev = loc["parts"][0][2] == -1
                r = rng.random()
                if r < 0.6:
                    fz[n_parts - 1][0 if rev else 1] = True        # 3' end of the last exon
                elif r < 0.8:
                    fz[0][1 if rev else 0] = True                  # 5' end of the first exon
                else:
                    fz[rng.randrange(n_parts)][rng.randrange(2)] = True
                total_aa = self.total_len(loc) // 3
                s = rng.choice([0, max(total_aa - 1, 0), total_aa // 2, total_aa, rng.randrange(0, total_aa + 1)])
                e = rng.choice([total_aa, total_aa + 1, total_aa + 1, total_aa + 2, total_aa + 7, 0, s + 1])
                yield dict(base, kind="sub", s=s, e=e, fz=fz)
            s, e = self.rand_range(rng, loc, 3)
            yield dict(base, kind="convert", s=s, e=e)
            s, e = self.rand_range(rng, loc, 1)
            yield dict(base, kind="offsets", s=s, e=e)
            total = self.total_len(loc)
            off = rng.choice([0, 3, total - 3, total - 2, -1, 3 * rng.randrange(0, total // 3 + 1)]
                             + [3 * (b // 3) for b in self.borders(loc)])
            yield dict(base, kind="tta", off=off)
            yield dict(base, kind="frameshift", cs=rng.choice([1, 2, 2, 3, 3, 0, 4]), undo=rng.random() < 0.3)
            if rng.random() < 0.3:   # the qualifier as GenBank text: only its first character counts
                yield dict(base, kind="frameshift", cs=rng.choice([1, 2, 3]), undo=rng.random() < 0.3,
                           text=rng.choice(["1", "2", "3", "2 ", "3x", "21", "10", "0", "4", "9", "x", "-1", " 2", "2.0"]))
            aa = total // 3
            ld = rng.choice([0, 0, 1, 2, aa // 2, aa - 1, aa] + [b // 3 for b in self.borders(loc)])
            tl = rng.choice([0, 0, 1, 2, aa - ld - 1, aa - ld, max(aa - ld - 2, 0)])
            yield dict(base, kind="prepeptide", leader=max(ld, 0), tail=max(tl, 0))
            # written out and re-read (results reuse / GenBank): mostly valid splits, sections ending on exon borders
            if aa >= 1:
                ld2 = rng.choice([0, 1, aa // 3, aa // 2] + [b // 3 for b in self.borders(loc)[:-1]])
                ld2 = min(max(ld2, 0), aa - 1)
                tl2 = rng.choice([0, 1, (aa - ld2) // 2, aa - ld2 - 1] + [aa - b // 3 for b in self.borders(loc)[:-1]])
                tl2 = min(max(tl2, 0), aa - ld2 - 1) if rng.random() < 0.95 else aa - ld2
                yield dict(base, kind="prepeptide_rt", leader=ld2, tail=tl2)
            if rng.random() < 0.3 and loc["parts"][0][2] in (1, -1) and aa >= 2:
                yield self.cds_table_case(rng, loc, dna)
            crossings = sum(1 for a, b in zip(loc["parts"], loc["parts"][1:])
                            if ((a[0] < b[0]) if loc["parts"][0][2] == -1 else (a[0] > b[0])))
            if loc["parts"][0][2] in (1, -1) and aa >= 2 and crossings <= 1 \
                    and rng.random() < (0.6 if len(loc["parts"]) > 1 else 0.1):
                # the annotated record written out and read back (results reuse / GenBank re-read)
                s = rng.randrange(0, aa)
                e = rng.randrange(s + 1, aa + 1)
                marks = [3 * (b // 3) for b in self.borders(loc)[:-1] if 3 * (b // 3) + 3 <= total]
                off = rng.choice(marks) if marks and rng.random() < 0.6 else 3 * rng.randrange(0, aa)
                ld2 = rng.randrange(0, aa)
                yield dict(base, kind="record_rt", s=s, e=e, off=off, leader=ld2, tail=rng.randrange(0, aa - ld2),
                           dna=self.without_stops(loc, dna))
            if rng.random() < 0.35 and loc["parts"][0][2] in (1, -1):
                s, e = self.rand_range(rng, loc, 3)
                yield dict(base, kind=rng.choice(["motif", "domain", "pfam"]), s=s, e=e, dna=self.without_stops(loc, dna))
            overlapping = any(a[0] < b[1] and b[0] < a[1] for a, b in itertools.combinations(loc["parts"], 2))
            if rng.random() < (0.5 if overlapping else 0.08) and loc["parts"][0][2] in (1, -1):
                # whole-module run; codons are planted at random residues and on the exon junctions
                junctions = [b // 3 for b in self.borders(loc)[:-1]]
                plant = [rng.randrange(0, max(aa, 1)) for _ in range(2)] + rng.sample(junctions, min(len(junctions), 2))
                yield dict(base, kind="tta_detect", plant=plant)
            if rng.random() < 0.02 and len(loc["parts"]) > 1:
                # outside the property's quantifier (an empty exon): correspondence with the model only
                parts = loc["parts"]
                spot = max(p[1] for p in parts) + 1
                i = rng.randrange(1, len(parts))
                odd = {"c": True, "parts": parts[:i] + [[spot, spot, parts[0][2]]] + parts[i:]}
                s, e = self.rand_range(rng, odd, 3)
                yield dict(kind="sub", loc=odd, dna=dna + "AC", s=s, e=e)
                s, e = self.rand_range(rng, odd, 1)
                yield dict(kind="offsets", loc=odd, dna=dna + "AC", s=s, e=e)
        if deep:
            yield from self.small_scope(rng, full=(tier == "thorough"))

    def small_scope(self, rng: random.Random, full: bool) -> Iterator[Dict[str, Any]]:
        """every gene of <=3 exons with total length <=9 on a 1-grid (gaps 0..2, overlap -1), both strands,
           linear and every cut of a ring of length 12 x every range"""
        total_cases = 0
        genes = []
        for n in (1, 2, 3):
            for lens in itertools.product(range(1, 8), repeat=n):
                if sum(lens) > 9:
                    continue
                for gaps in itertools.product((0, 1, 2, -1), repeat=n - 1):
                    if any(g < 0 and min(lens[i], lens[i + 1]) <= -g for i, g in enumerate(gaps)):
                        continue
                    genes.append((list(lens), list(gaps)))
        if not full:
            genes = rng.sample(genes, min(len(genes), 150))
        for lens, gaps in genes:
            span = sum(lens) + sum(gaps)
            for strand in (1, -1):
                layouts = [(span + 2, 1 if strand == 1 else 1 + span)]
                ring = max(12, span)
                cuts = range(ring) if full else rng.sample(range(ring), 3)
                layouts += [(ring, o) for o in cuts]
                for length, origin in layouts:
                    parts = self.layout(lens, gaps, strand, length, origin)
                    loc = {"c": len(parts) > 1, "parts": parts}
                    if not self.acceptable(loc):
                        continue
                    dna = self.rand_dna(rng, length)
                    total = sum(lens)
                    aa = total // 3
                    base = {"loc": loc, "dna": dna}
                    for s in range(-1, aa + 1):
                        for e in range(s, aa + 2):
                            total_cases += 1
                            yield dict(base, kind="sub", s=s, e=e)
                    for off in range(-1, total):
                        total_cases += 1
                        yield dict(base, kind="tta", off=off)
                    for cs in (1, 2, 3):
                        for undo in (False, True):
                            total_cases += 1
                            yield dict(base, kind="frameshift", cs=cs, undo=undo)
                    for ld in range(0, aa + 1):
                        for tl in range(0, aa + 1 - ld):
                            total_cases += 1
                            yield dict(base, kind="prepeptide", leader=ld, tail=tl)
                            if ld + tl < aa:
                                total_cases += 1
                                yield dict(base, kind="prepeptide_rt", leader=ld, tail=tl)
                    if aa:
                        total_cases += 1
                        yield dict(base, kind="convert", s=rng.randrange(0, aa), e=aa)
        self.exhaustive_done = full
        self.extra_coverage = {"small_scope_cases": total_cases, "small_scope_genes": len(genes)}

    # ------------------------------------------------------------------ implementation adapter
    def run_impl(self, case: Dict[str, Any]) -> Dict[str, Any]:
        from Bio.Seq import Seq
        from antismash.common.secmet.features.feature import Feature
        from antismash.common.secmet import locations as L
        kind = case["kind"]
        dna = case["dna"]
        location = self.make_fuzzy(case["loc"], case["fz"]) if case.get("fz") else common.make_location(case["loc"])
        seq = Seq(dna)
        gene_extract = str(location.extract(seq))
        out: Dict[str, Any] = {"gene_extract": gene_extract}
        try:    # Feature.start / Feature.end: the gene's ends in transcription order
            probe = Feature(location, feature_type="test")
            out["feature_ends"] = [int(probe.start), int(probe.end)]
        except Exception as exc:  # pylint: disable=broad-except
            out["feature_ends"] = _err(exc)["err"]

        def describe(loc: Any) -> Dict[str, Any]:
            return {"loc": common.location_json(loc), "extract": str(loc.extract(seq))}

        try:
            if kind == "sub":
                feature = Feature(location, feature_type="test")
                res = feature.get_sub_location_from_protein_coordinates(case["s"], case["e"])
                out.update(describe(res))
                out["translation"] = str(Seq(out["extract"]).translate())
            elif kind == "offsets":
                out.update(describe(L.get_sub_location_from_offsets(location, case["s"], case["e"])))
            elif kind == "convert":
                static = L.convert_protein_position_to_dna(case["s"], case["e"], location)
                dynamic = location.convert_protein_position_to_dna(case["s"], case["e"])
                out["pair"] = [int(static[0]), int(static[1])]
                out["method_same"] = tuple(static) == tuple(dynamic)
            elif kind == "frameshift":
                if "text" in case:
                    try:
                        out["text_loc"] = common.location_json(
                            L.frameshift_location_by_qualifier(location, case["text"], undo=case["undo"]))
                    except Exception as exc:  # pylint: disable=broad-except
                        out["text_err"] = _err(exc)["err"]
                if case["undo"]:
                    res = L.frameshift_location_by_qualifier(location, case["cs"], undo=True)
                else:
                    res = location.clone_with_frameshift(case["cs"])
                out.update(describe(res))
                # the qualifier as text takes the same path
                text = L.frameshift_location_by_qualifier(location, str(case["cs"]), undo=case["undo"])
                out["text_same"] = str(text) == str(res)
                if not case["undo"] and case["loc"]["parts"][0][2] in (1, -1):
                    # Feature.from_biopython shifts, to_biopython restores and re-emits the qualifier
                    from Bio.SeqFeature import SeqFeature
                    bio = SeqFeature(common.make_location(case["loc"]), type="misc_feature",
                                     qualifiers={"codon_start": [str(case["cs"])]})
                    try:
                        feat = Feature.from_biopython(bio)
                        out["feature_shifted"] = common.location_json(feat.location)
                        back = feat.to_biopython()[0]
                        out["feature_restored"] = common.location_json(back.location)
                        out["feature_qual"] = back.qualifiers.get("codon_start")
                    except Exception as exc:  # pylint: disable=broad-except
                        out["feature_err"] = _err(exc)["err"]
                    # a gene read from GenBank with codon_start takes the CDSFeature path (class hierarchy:
                    # CDSFeature.from_biopython, then Feature.from_biopython): shifted exactly once
                    if "feature_shifted" in out:
                        from antismash.common.secmet.features import CDSFeature
                        shifted_len = sum(hi - lo for lo, hi, _ in out["feature_shifted"]["parts"])
                        bio_cds = SeqFeature(common.make_location(case["loc"]), type="CDS",
                                             qualifiers={"codon_start": [str(case["cs"])], "locus_tag": ["gene"],
                                                         "translation": ["M" * max(shifted_len // 3, 1)]})
                        try:
                            cds = CDSFeature.from_biopython(bio_cds)
                            out["cds_shifted"] = common.location_json(cds.location)
                        except Exception as exc:  # pylint: disable=broad-except
                            out["cds_err"] = _err(exc)["err"]
            elif kind == "prepeptide":
                from antismash.common.secmet.features.prepeptide import Prepeptide
                pre = Prepeptide(location, "cls", "C", "locus", "tool", leader="L" * case["leader"],
                                 tail="T" * case["tail"])
                feats = list(pre.to_biopython())
                if case["leader"]:
                    out["leader"] = describe(feats.pop(0).location)
                out["core"] = describe(feats.pop(0).location)
                if case["tail"]:
                    out["tail"] = describe(feats.pop(0).location)
                out["extra"] = len(feats)
            elif kind == "prepeptide_rt":
                out.update(self._run_prepeptide_rt(case, location, describe))
            elif kind == "tta":
                from antismash.modules.tta.tta import TTAResults
                results = TTAResults("rec", 1.0, 0.5)
                marker = results.new_feature_from_other(Feature(location, feature_type="CDS"), case["off"])
                out.update(describe(marker.location))
                out["json_rt"] = self._tta_json_roundtrip(results)
            elif kind in ("motif", "domain"):
                out.update(self._run_caller(case, location, seq, gene_extract))
            elif kind == "pfam":
                out.update(self._run_pfam(case, location, seq, gene_extract))
            elif kind == "cds_table":
                out.update(self._run_cds_table(case, location, seq))
            elif kind == "record_rt":
                out.update(self._run_record_rt(case, location, seq, gene_extract))
            elif kind == "tta_detect":
                out.update(self._run_tta_detect(case, location))
            else:
                raise ValueError(f"unknown kind {kind}")
        except Exception as exc:  # pylint: disable=broad-except
            out.update(_err(exc))
        return out

    @staticmethod
    def make_fuzzy(loc: Dict[str, Any], fz: List[List[bool]]) -> Any:
        """a partial gene: per part [start is `<`, end is `>`] (as NCBI writes genes cut by a contig edge)"""
        from Bio.SeqFeature import AfterPosition, BeforePosition
        from antismash.common.secmet.locations import CompoundLocation, FeatureLocation
        parts = [FeatureLocation(BeforePosition(lo) if before else lo, AfterPosition(hi) if after else hi, strand)
                 for (lo, hi, strand), (before, after) in zip(loc["parts"], fz)]
        return CompoundLocation(parts) if loc["c"] else parts[0]

    @staticmethod
    def _run_prepeptide_rt(case: Dict[str, Any], location: Any, describe: Any) -> Dict[str, Any]:
        """Prepeptide → to_biopython → Prepeptide.from_biopython(core feature) → to_biopython again
           (what happens when results are reused or a GenBank output is read back), plus the JSON form"""
        import json as _json
        from antismash.common.secmet.features import prepeptide as pmod
        out: Dict[str, Any] = {"repaired": hasattr(pmod, "_combine_sections")}
        pre = pmod.Prepeptide(location, "lanthipeptide", "C", "locus", "tool", peptide_subclass="Class I",
                              score=1.5, leader="L" * case["leader"], tail="T" * case["tail"])
        first = list(pre.to_biopython())
        core = [f for f in first if f.qualifiers["prepeptide"] == ["core"]][0]
        rebuilt = pmod.Prepeptide.from_biopython(core)
        out["rebuilt"] = common.location_json(rebuilt.location)
        out["sequences_kept"] = (rebuilt.leader, rebuilt.core, rebuilt.tail) == (pre.leader, pre.core, pre.tail)
        second = list(rebuilt.to_biopython())
        if case["leader"]:
            out["leader"] = describe(second.pop(0).location)
        out["core"] = describe(second.pop(0).location)
        if case["tail"]:
            out["tail"] = describe(second.pop(0).location)
        out["extra"] = len(second)
        out["rebuilt_desc"] = describe(rebuilt.location)
        again = pmod.Prepeptide.from_json(_json.loads(_json.dumps(pre.to_json())))
        out["json_same"] = common.location_json(again.location) == case["loc"]
        return out

    @staticmethod
    def _tta_json_roundtrip(results: Any) -> Any:
        from antismash.config import build_config, get_config
        from antismash.modules import tta
        try:
            get_config().tta_threshold
        except Exception:  # pylint: disable=broad-except
            build_config(["--tta-threshold", "0.0"], isolated=True, modules=[tta])
        from antismash.common.secmet.test.helpers import DummyRecord
        import json as _json
        data = _json.loads(_json.dumps(results.to_json()))
        rec = DummyRecord(seq="A" * 10, record_id="rec")
        again = type(results).from_json(data, rec)
        if again is None:
            return "none"
        return [str(f.location) for f in again.features] == [str(f.location) for f in results.features]

    @staticmethod
    def _run_caller(case: Dict[str, Any], location: Any, seq: Any, gene_extract: str) -> Dict[str, Any]:
        from Bio.Seq import Seq
        from antismash.common.hmmscan_refinement import HMMResult
        from antismash.common.secmet.test.helpers import DummyCDS
        from antismash.detection.nrps_pks_domains import domain_identification as di
        usable = gene_extract[:len(gene_extract) - len(gene_extract) % 3]
        translation = str(Seq(usable).translate()) or "X"
        cds = DummyCDS(location=location, locus_tag="gene", translation=translation)
        hit = HMMResult("PKS_KS" if case["kind"] == "domain" else "motif", case["s"], case["e"], 1e-10, 50.0)
        if case["kind"] == "domain":
            feat = list(di.generate_domain_features(cds, [hit]).values())[0]
        else:
            feat = di.generate_motif_features(cds, [hit])[0]
        # the record-level helper used when features are re-translated (stop-free frame, so `to_stop` is moot)
        from antismash.common.secmet.record import Record
        record = Record(seq)
        whole = str(record.get_aa_translation_from_location(location))
        piece = str(record.get_aa_translation_from_location(feat.location))
        return {"record_translation_ok": piece == whole[case["s"]:case["e"]],
                "loc": common.location_json(feat.location), "extract": str(feat.location.extract(seq)),
                "translation": str(feat.location.extract(seq).translate()),
                "feature_translation": feat.translation,
                "protein": [int(feat.protein_location.start), int(feat.protein_location.end)]}

    @staticmethod
    def _run_pfam(case: Dict[str, Any], location: Any, seq: Any, gene_extract: str) -> Dict[str, Any]:
        """the generic hmmer path: build_hits (location → text) → HmmerResults JSON → add_to_record (text →
           location) → PFAMDomain in the record"""
        import json as _json
        from types import SimpleNamespace
        from Bio.Seq import Seq
        from antismash.common import hmmer, pfamdb
        from antismash.common.secmet.test.helpers import DummyCDS, DummyRecord
        database = "/db/pfam/31.0/Pfam-A.hmm"
        pfamdb.KNOWN_MAPPINGS[database] = {"dom": "PF00001.21"}
        usable = gene_extract[:len(gene_extract) - len(gene_extract) % 3]
        translation = str(Seq(usable).translate()) or "X"
        parts = case["loc"]["parts"]
        rev = parts[0][2] == -1
        spanning = any((a[0] < b[0]) if rev else (a[0] > b[0]) for a, b in zip(parts, parts[1:]))
        try:
            record = DummyRecord(seq=str(seq), circular=spanning)
            record.add_cds_feature(DummyCDS(location=location, locus_tag="gene", translation=translation))
        except Exception as exc:  # pylint: disable=broad-except
            return {"skipped": f"record set-up refused: {str(exc)[:80]}"}
        hsp = SimpleNamespace(bitscore=50.0, evalue=1e-20, query_id="gene", query_start=case["s"],
                              query_end=case["e"], hit_id="dom", hit_description="a domain")
        hits = hmmer.build_hits(record, [SimpleNamespace(id="dom", hsps=[hsp])], 10.0, 1e-5, database)
        results = hmmer.HmmerResults(record.id, 1e-5, 10.0, database, "tool", hits)
        again = hmmer.HmmerResults.from_json(_json.loads(_json.dumps(results.to_json())), record)
        again.add_to_record(record)
        dom = record.get_pfam_domains()[0]
        return {"loc": common.location_json(dom.location), "extract": str(dom.location.extract(seq)),
                "translation": str(dom.location.extract(seq).translate()),
                "feature_translation": dom.translation, "record_translation_ok": True,
                "protein": [int(dom.protein_location.start), int(dom.protein_location.end)]}

    @staticmethod
    def _run_record_rt(case: Dict[str, Any], location: Any, seq: Any, gene_extract: str) -> Dict[str, Any]:
        """a circular record with a gene and annotations positioned inside it (motif, TTA marker, prepeptide) is
           written with Record.to_biopython and read back with Record.from_biopython; every annotation must still
           cover the nucleotides that encode it"""
        from Bio.Seq import Seq
        from antismash.common.hmmscan_refinement import HMMResult
        from antismash.common.secmet import Record
        from antismash.common.secmet.features.prepeptide import Prepeptide
        from antismash.common.secmet.test.helpers import DummyCDS, DummyRecord
        from antismash.detection.nrps_pks_domains import domain_identification as di
        from antismash.modules.tta.tta import TTAResults
        usable = gene_extract[:len(gene_extract) - len(gene_extract) % 3]
        translation = str(Seq(usable).translate())
        residues = len(usable) // 3
        if not (0 <= case["s"] < case["e"] <= residues and 0 <= case["off"] and case["off"] + 3 <= len(gene_extract)
                and case["leader"] >= 0 and case["tail"] >= 0 and case["leader"] + case["tail"] < residues
                and "*" not in translation):
            return {"skipped": "degenerate case (ranges outside the product)"}
        made: Dict[str, Any] = {}
        try:
            record = DummyRecord(seq=str(seq), circular=True, record_id="rec")
            cds = DummyCDS(location=location, locus_tag="gene", translation=translation)
            record.add_cds_feature(cds)
        except Exception as exc:  # pylint: disable=broad-except
            return {"skipped": f"record set-up refused: {str(exc)[:80]}"}
        try:
            motif = di.generate_motif_features(cds, [HMMResult("motif", case["s"], case["e"], 1e-9, 30.0)])[0]
            record.add_cds_motif(motif)
            made["motif"] = common.location_json(motif.location)
        except ValueError:
            pass                                    # a location no Feature can hold
        try:
            results = TTAResults("rec", 1.0, 0.0)
            marker = results.new_feature_from_other(cds, case["off"])
            results.add_to_record(record)
            made["tta"] = common.location_json(marker.location)
        except ValueError:
            pass
        try:
            pre = Prepeptide(location, "lanthipeptide", "C", "gene", "tool", peptide_subclass="Class I", score=1.0,
                             leader="L" * case["leader"], tail="T" * case["tail"])
            record.add_cds_motif(pre)
            made["prepeptide"] = True
        except ValueError:
            pass
        try:
            bio = record.to_biopython()
            bio.annotations["molecule_type"] = "DNA"
            again = Record.from_biopython(bio, taxon="bacteria")
        except Exception as exc:  # pylint: disable=broad-except
            # refusals that are not this property's business: exon orders crossing the origin more than once, and
            # written sections whose exons share an end coordinate (no Feature can hold them)
            if "cannot determine correct ordering" in str(exc) or "overlapping exons" in str(exc):
                return {"skipped": f"round trip refused: {str(exc)[:80]}"}
            raise
        out: Dict[str, Any] = {"made": made}
        gene = again.get_cds_by_name("gene")
        out["gene"] = {"loc": common.location_json(gene.location), "extract": str(gene.location.extract(again.seq)),
                       "translation": gene.translation}
        for feat in again.get_cds_motifs():
            if isinstance(feat, Prepeptide):
                sections = {}
                for bio_feat in feat.to_biopython():
                    sections[bio_feat.qualifiers["prepeptide"][0]] = {
                        "loc": common.location_json(bio_feat.location),
                        "extract": str(bio_feat.location.extract(again.seq))}
                out["prepeptide"] = sections
            else:
                out["motif"] = {"loc": common.location_json(feat.location),
                                "extract": str(feat.location.extract(again.seq)), "translation": feat.translation}
        generics = [f for f in again.get_generics() if f.type == "misc_feature"]
        if generics:
            out["tta"] = {"loc": common.location_json(generics[0].location),
                          "extract": str(generics[0].location.extract(again.seq))}
        return out

    @staticmethod
    def _run_cds_table(case: Dict[str, Any], location: Any, seq: Any) -> Dict[str, Any]:
        """Record.from_biopython → CDSFeature.from_biopython generates the gene's translation; every sub-location
           must encode, under the gene's OWN table, that stretch of the gene's translation"""
        from Bio.SeqFeature import SeqFeature
        from Bio.SeqRecord import SeqRecord
        from antismash.common.secmet import Record
        parts = case["loc"]["parts"]
        rev = parts[0][2] == -1
        spanning = any((a[0] < b[0]) if rev else (a[0] > b[0]) for a, b in zip(parts, parts[1:]))
        bio = SeqRecord(seq, id="rec", name="rec")
        bio.annotations["molecule_type"] = "DNA"
        bio.annotations["topology"] = "circular" if spanning or len(parts) > 1 else "linear"
        quals: Dict[str, List[str]] = {"locus_tag": ["gene"]}
        if case["qual"] is not None:
            quals["transl_table"] = [str(case["qual"])]
        if case["given"] == "invalid":
            quals["translation"] = ["M?K"]            # invalid characters: regenerated like a missing one
        bio.features.append(SeqFeature(location, type="CDS", qualifiers=quals))
        try:
            record = Record.from_biopython(bio, taxon=case["taxon"])
            gene = record.get_cds_by_name("gene")
        except Exception as exc:  # pylint: disable=broad-except
            return {"skipped": f"record refused: {str(exc)[:80]}"}
        out: Dict[str, Any] = {"table": int(gene.transl_table), "record_table": int(record.transl_table),
                               "gene_translation": str(gene.translation),
                               "gene_loc": common.location_json(gene.location), "subs": []}
        for s, e in case["ranges"]:
            try:
                sub = gene.get_sub_location_from_protein_coordinates(s, e)
                out["subs"].append({"s": s, "e": e, "loc": common.location_json(sub),
                                    "encoded": str(sub.extract(record.seq).translate(table=gene.transl_table))})
            except Exception as exc:  # pylint: disable=broad-except
                out["subs"].append({"s": s, "e": e, "err": _err(exc)["err"]})
        return out

    @staticmethod
    def _run_tta_detect(case: Dict[str, Any], location: Any) -> Dict[str, Any]:
        """whole-module run: plant TTA codons into the gene, detect, every marker must extract to TTA"""
        from argparse import Namespace
        from Bio.Seq import Seq
        from antismash.common.secmet.test.helpers import DummyCDS, DummyRecord, DummySubRegion
        from antismash.modules.tta import tta as tta_mod
        dna = list(case["dna"].replace("T", "C"))          # no accidental TTA / TAA
        rev = case["loc"]["parts"][0][2] == -1
        positions = C09.py_bases(case["loc"])
        for aa in case["plant"]:
            codon = positions[3 * aa:3 * aa + 3]
            if len(codon) == 3:
                for pos, ch in zip(codon, "TTA"):
                    dna[pos] = COMP[ch] if rev else ch
        length = len(dna)
        parts = case["loc"]["parts"]
        spanning = any((a[0] < b[0]) if rev else (a[0] > b[0]) for a, b in zip(parts, parts[1:]))
        try:
            record = DummyRecord(seq="".join(dna), circular=spanning)
            record.add_cds_feature(DummyCDS(location=location, locus_tag="gene"))
            record.add_subregion(DummySubRegion(start=0, end=length))
            record.create_regions()
            if len(record.get_cds_features_within_regions()) != 1:
                return {"skipped": "gene not inside the region"}
        except Exception as exc:  # pylint: disable=broad-except
            return {"skipped": f"record set-up refused: {str(exc)[:80]}"}
        res = tta_mod.detect(record, Namespace(tta_threshold=0.0))
        gene_seq = str(location.extract(record.seq))
        codons = [i for i in range(0, len(gene_seq) - 2, 3) if gene_seq[i:i + 3] == "TTA"]
        try:    # codons no feature can hold are skipped by the (repaired) module
            from antismash.common.secmet.locations import get_sub_location_from_offsets
            expected = sum(1 for i in codons
                           if not get_sub_location_from_offsets(location, i, i + 3).contains_overlapping_exons())
        except ImportError:
            expected = len(codons)
        markers = [str(f.location.extract(record.seq)) for f in res.features]
        inside = all(all(any(p.start <= q.start and q.end <= p.end for p in location.parts) for q in f.location.parts)
                     for f in res.features)
        return {"markers": markers, "expected": expected, "inside": inside}

    @staticmethod
    def py_bases(loc: Dict[str, Any]) -> List[int]:
        out: List[int] = []
        for lo, hi, strand in loc["parts"]:
            out += list(range(hi - 1, lo - 1, -1)) if strand == -1 else list(range(lo, hi))
        return out

    # ------------------------------------------------------------------ driver + judge
    def driver_line(self, case: Dict[str, Any], obs: Dict[str, Any]) -> Optional[Dict[str, Any]]:
        kind = case["kind"]
        line: Dict[str, Any] = {"loc": case["loc"]}
        if kind in ("sub", "motif", "domain", "pfam"):
            line.update(kind="sub", s=case["s"], e=case["e"], impl=obs.get("loc"), feature=kind != "sub")
            if case.get("fz"):
                line["fz"] = case["fz"]
        elif kind == "offsets":
            line.update(kind="offsets", s=case["s"], e=case["e"], impl=obs.get("loc"))
        elif kind == "convert":
            line.update(kind="convert", s=case["s"], e=case["e"])
        elif kind == "frameshift":
            line.update(kind="frameshift", cs=case["cs"], undo=case["undo"], impl=obs.get("loc"))
            if "text" in case:
                line["text"] = case["text"]
        elif kind == "prepeptide":
            line.update(kind="prepeptide", leader=case["leader"], tail=case["tail"],
                        impl_leader=(obs.get("leader") or {}).get("loc"), impl_core=(obs.get("core") or {}).get("loc"),
                        impl_tail=(obs.get("tail") or {}).get("loc"))
        elif kind == "prepeptide_rt":
            line.update(kind="prepeptide_rt", leader=case["leader"], tail=case["tail"],
                        repaired=bool(obs.get("repaired")), impl_rebuilt=obs.get("rebuilt"),
                        impl_leader=(obs.get("leader") or {}).get("loc"), impl_core=(obs.get("core") or {}).get("loc"),
                        impl_tail=(obs.get("tail") or {}).get("loc"))
        elif kind == "tta":
            line.update(kind="tta", off=case["off"], impl=obs.get("loc"))
        elif kind == "record_rt":
            line.update(kind="record_rt", s=case["s"], e=case["e"], off=case["off"],
                        impl_gene=(obs.get("gene") or {}).get("loc"), impl_motif=(obs.get("motif") or {}).get("loc"),
                        impl_tta=(obs.get("tta") or {}).get("loc"))
        elif kind == "cds_table":
            from Bio.Seq import Seq
            extract = obs["gene_extract"]
            usable = extract[:len(extract) // 3 * 3]
            record_table = 11 if case["taxon"] == "bacteria" else 1
            tables = sorted({record_table} | ({case["qual"]} if case["qual"] is not None else set()))
            line.update(kind="cds_table", record_table=record_table, qual=case["qual"],
                        aas=[[t, str(Seq(usable).translate(table=t))] for t in tables])
        elif kind == "tta_detect":
            line.update(kind="offsets", s=0, e=1, impl=None)   # only the scope / shape facts are used
        return line

    @staticmethod
    def _model_obs(model: Dict[str, Any]) -> Any:
        return model.get("err") if "err" in model else model["ok"]

    def judge(self, case: Dict[str, Any], obs: Dict[str, Any], drv: Optional[Dict[str, Any]]) -> Judgement:
        """total on everything `shrink` yields: a variant the observables do not fit is reported as a correspondence
           problem (never hidden, never a spec failure)"""
        try:
            return self._judge(case, obs, drv)
        except (KeyError, TypeError, IndexError, AttributeError) as exc:
            return Judgement(False, True, detail=f"judge not applicable to this variant: {type(exc).__name__} {exc}")

    def _judge(self, case: Dict[str, Any], obs: Dict[str, Any], drv: Optional[Dict[str, Any]]) -> Judgement:
        assert drv is not None
        if "err" in drv and "model" not in drv:
            return Judgement(False, True, detail=f"driver error {drv['err']}")
        kind = case["kind"]
        loc = case["loc"]
        scope = bool(drv["scope"])
        multi = len(loc["parts"]) > 1
        tags = [kind, "multi-exon" if multi else "single-exon", "origin" if drv["bridges"] else "no-origin",
                "rev" if loc["parts"][0][2] == -1 else "fwd", "in-scope" if scope else "out-of-scope"]
        # the trusted link: Biopython extracts exactly the positions `bases` lists
        link_ok = (not scope) or obs["gene_extract"] == transcribed(loc, case["dna"], self.py_bases(loc)) \
            and drv["nbases"] == len(obs["gene_extract"])
        if not link_ok:
            return Judgement(False, True, in_scope=scope, tags=tuple(tags),
                             detail="Biopython extract disagrees with the transcription-order reading")
        ends = obs.get("feature_ends")
        if isinstance(ends, list) and scope:
            rev = loc["parts"][0][2] == -1
            want = [drv["last_base"], drv["first_base"] + 1] if rev else [drv["first_base"], drv["last_base"] + 1]
            if ends != [drv["feature_start"], drv["feature_end"]]:
                return Judgement(False, ends == want, in_scope=scope, tags=tuple(tags),
                                 detail=f"Feature.start/end {ends} vs model {[drv['feature_start'], drv['feature_end']]}")
            if ends != want:
                return Judgement(True, False, in_scope=scope, tags=tuple(tags),
                                 detail=f"Feature.start/end {ends} are not the gene's ends in transcription order {want}")
        if drv.get("unrepresentable") and drv.get("standard_gene") and scope and loc["parts"][0][2] in (1, -1):
            # theorems tta_marker_{forward,reverse}_standard_gene / annotation_standard_gene_never_refused
            return Judgement(False, False, in_scope=scope, tags=tuple(tags),
                             detail="a standard-order gene produced a location the Feature constructor refuses")
        if drv.get("standard_gene"):
            tags.append("standard-gene")
        if kind == "cds_table":
            return self._judge_cds_table(case, obs, drv, scope, tags)
        if kind == "record_rt":
            return self._judge_record_rt(case, obs, drv, scope, tags)
        if kind == "pfam" and "skipped" in obs:
            tags.append("pfam-skipped")
            return Judgement(True, True, in_scope=scope, tags=tuple(tags))
        if kind == "tta_detect":
            if "skipped" in obs:
                tags.append("detect-skipped")
                return Judgement(True, True, in_scope=scope, tags=tuple(tags))
            ok = ("err" not in obs and len(obs["markers"]) == obs["expected"]
                  and all(m == "TTA" for m in obs["markers"]) and obs["inside"])
            tags.append("markers" if obs.get("markers") else "no-markers")
            return Judgement(True, ok or not scope, in_scope=scope, nontrivial=bool(obs.get("markers")) and multi,
                             tags=tuple(tags), detail="" if ok else f"tta.detect: {obs}")
        model = drv["model"]
        spec = drv["spec"]
        guard = bool(spec["guard"])
        impl_err = obs.get("err")
        tags.append("guard" if guard else "refused-range")
        tags.append("impl-ok" if impl_err is None else f"impl-{impl_err}")
        detail = ""

        def covers_ok(flag: Any, ob: Optional[Dict[str, Any]], positions: List[int]) -> bool:
            """Lean verdict on the location + the extracted string equals the slice of the gene's sequence"""
            if ob is None:
                return False
            return flag is True and ob["extract"] == transcribed(loc, case["dna"], positions)

        # ---- correspondence (implementation == model) and spec, per kind
        if kind in ("sub", "offsets", "tta", "motif", "domain", "pfam"):
            m = self._model_obs(model)
            corr = (impl_err == m) if impl_err is not None else (obs["loc"] == m)
            if guard and drv.get("unrepresentable") and kind in ("tta", "motif", "domain", "pfam"):
                # exons of the sub-location share an end coordinate: no secmet Feature can hold it, so no
                # annotation is positioned at all (refused with ValueError)
                spec_ok = impl_err == "value-error"
                tags.append("unrepresentable-refused")
            elif guard:
                spec_ok = impl_err is None and covers_ok(spec["covers"], obs, spec["slice"])
                if spec_ok and kind in ("sub", "motif", "domain", "pfam"):
                    s, e = case["s"], drv.get("eff_e", case["e"])     # partial genes: end truncated to the product
                    if drv.get("truncated"):
                        tags.append("end-truncated")
                    from Bio.Seq import Seq
                    usable = obs["gene_extract"][:len(obs["gene_extract"]) // 3 * 3]
                    whole = str(Seq(usable).translate())
                    spec_ok = obs["translation"] == whole[s:e] and len(obs["extract"]) == 3 * (e - s)
                    if spec_ok and kind != "sub":
                        spec_ok = obs["feature_translation"] == obs["translation"] and obs["protein"] == [s, e] \
                            and obs["record_translation_ok"]
            else:
                spec_ok = impl_err is not None          # ranges outside the gene are refused
                if kind in ("motif", "domain", "pfam") and impl_err is None:
                    spec_ok = False
        elif kind == "convert":
            m = self._model_obs(model)
            corr = (impl_err == m) if impl_err is not None else (obs["pair"] == m and obs["method_same"])
            spec_ok = True
            if spec["standard"] and scope:
                # theorems convert_simple_location / convert_compound_{forward,reverse}_partial
                spec_ok = (impl_err is None and obs["pair"] == spec["expected"] == spec["minmax"]) if guard \
                    else impl_err is not None
                tags.append("convert-standard-order")
        elif kind == "frameshift":
            m = self._model_obs(model)
            corr = (impl_err == m) if impl_err is not None else (obs["loc"] == m)
            if "text" in case:
                mt = drv["model_text"]
                same = (obs.get("text_err") == mt.get("err")) if "text_err" in obs else obs.get("text_loc") == mt.get("ok")
                corr = corr and same
                tags.append("text-" + ("refused" if "err" in mt else "ok"))
                first = case["text"][:1]
                if first in ("1", "2", "3"):
                    # the text form means the same as its first digit
                    ok_text = ("text_loc" in obs) or obs.get("text_err") in ("value-error", "assertion")
                else:
                    ok_text = obs.get("text_err") == "value-error"
                if not ok_text:
                    detail = f"codon_start text {case['text']!r} handled as {obs.get('text_loc') or obs.get('text_err')}"
            else:
                ok_text = True
            if guard:
                spec_ok = impl_err is None and spec["shifted"] is True and obs["text_same"]
                back = drv["back"] or {}
                if spec_ok and "feature_shifted" in obs:
                    # Feature.from_biopython shifts; to_biopython undoes (same guard as the model's undo)
                    spec_ok = obs["feature_shifted"] == obs["loc"]
                    if spec_ok and "cds_shifted" in obs and obs["cds_shifted"] != obs["loc"]:
                        spec_ok = False
                        detail = (f"CDSFeature.from_biopython with codon_start={case['cs']} places the gene at "
                                  f"{obs['cds_shifted']}, the frameshifted location is {obs['loc']}")
                    if "ok" in back:
                        spec_ok = spec_ok and back["ok"] == loc and obs.get("feature_restored") == loc \
                            and obs.get("feature_qual") == [str(case["cs"])]
                    else:
                        corr = corr and obs.get("feature_err") == back.get("err")
                        tags.append("undo-refused")
            else:
                spec_ok = impl_err is not None
            spec_ok = spec_ok and ok_text
        elif kind == "prepeptide":
            if impl_err is not None:
                corr = impl_err == model.get("err")
            else:
                mo = model.get("ok")
                corr = mo is not None and all((obs.get(k) or {}).get("loc") == mo[k] for k in ("leader", "core", "tail")) \
                    and obs["extra"] == 0
            if guard:
                sl = spec["slices"]
                spec_ok = impl_err is None and covers_ok(spec["core"], obs.get("core"), sl[1])
                if spec_ok and case["leader"]:
                    spec_ok = covers_ok(spec["leader"], obs.get("leader"), sl[0])
                if spec_ok and case["tail"]:
                    spec_ok = covers_ok(spec["tail"], obs.get("tail"), sl[2])
                if spec_ok:
                    joined = "".join((obs.get(k) or {}).get("extract", "") for k in ("leader", "core", "tail"))
                    spec_ok = joined == obs["gene_extract"][:len(obs["gene_extract"]) // 3 * 3]
            else:
                spec_ok = impl_err is not None
        elif kind == "prepeptide_rt":
            known = None
            sound = bool(drv["sound"]) or bool(obs.get("repaired"))
            tags.append("repaired-tree" if obs.get("repaired") else "unrepaired-tree")
            if impl_err is not None:
                corr = impl_err == model.get("err")
                spec_ok = not guard
                if guard and drv["unrepresentable"] and impl_err == "value-error":
                    # the rebuilt location has two exons ending at the same coordinate: no Feature can hold it
                    spec_ok = True
                    tags.append("unrepresentable-refused")
            else:
                mo, m2 = model.get("ok"), (drv["model2"] or {}).get("ok")
                if obs["repaired"]:
                    corr = mo is not None and obs["rebuilt"] == mo      # exact part structure with D107
                else:                                                   # unrepaired: part structure is C10's business
                    corr = mo is not None and self.py_bases(obs["rebuilt"]) == drv["model_bases"] \
                        and {p[2] for p in obs["rebuilt"]["parts"]} == {p[2] for p in mo["parts"]}
                if corr:
                    corr = m2 is not None and obs["extra"] == 0 and all(
                        (self.py_bases(obs[k]["loc"]) if k in obs else None)
                        == (self.py_bases(m2[k]) if m2[k] is not None else None) for k in ("leader", "core", "tail"))
                sl = spec["slices"]
                want = transcribed(loc, case["dna"], spec["expected"])
                spec_ok = guard and spec["rebuilt"] is True and obs["rebuilt_desc"]["extract"] == want \
                    and obs["sequences_kept"] and obs["json_same"]
                if not spec_ok:
                    detail = (f"prepeptide at {loc['parts']} (leader {case['leader']}, tail {case['tail']}) comes back from "
                              f"to_biopython -> from_biopython at {obs['rebuilt']['parts']}: not the gene's coding bases")
                for key, idx in (("leader", 0), ("core", 1), ("tail", 2)):
                    if spec_ok and (key == "core" or case[key]):
                        spec_ok = spec[key] is True and key in obs \
                            and obs[key]["extract"] == transcribed(loc, case["dna"], sl[idx])
                        if not spec_ok:
                            detail = (f"after to_biopython -> from_biopython the {key} is placed at "
                                      f"{(obs.get(key) or {}).get('loc')}, which is not bases {sl[idx][:3]}.. of the gene")
                if not spec_ok and not sound:
                    known = "KF-C09-prepeptide-false-merge"
            if not scope:
                spec_ok = True
            if not corr and not detail:
                detail = f"model {model} / {drv['model2']} vs implementation {obs}"
            nontrivial = guard and scope and impl_err is None and (multi or drv["bridges"]) \
                and bool(case["leader"] or case["tail"])
            tags.append("sound" if sound else "false-merge-class")
            return Judgement(corr, spec_ok, in_scope=scope and sound, known=known, nontrivial=nontrivial,
                             tags=tuple(tags), detail=detail)
        else:
            return Judgement(False, True, detail=f"unknown kind {kind}")
        if kind == "tta" and impl_err is None and obs.get("json_rt") is not True:
            spec_ok = False
            detail = f"TTA marker does not survive the results JSON round trip: {obs.get('json_rt')}"
        if not scope:
            spec_ok = True       # outside the property's quantifier (empty exon / mixed strands): correspondence only
        if not spec_ok and not detail:
            detail = f"spec: guard={guard} spec={ {k: v for k, v in spec.items() if k not in ('slice', 'slices')} } impl={obs}"
        if not corr and not detail:
            detail = f"model {model} vs implementation {obs}"
        nontrivial = guard and scope and impl_err is None and (multi or drv["bridges"])
        proved = scope and (kind != "convert" or bool(spec["standard"]))   # convert_*: standard exon order only
        return Judgement(corr, spec_ok, in_scope=proved, nontrivial=nontrivial, tags=tuple(tags), detail=detail)

    def _judge_record_rt(self, case: Dict[str, Any], obs: Dict[str, Any], drv: Dict[str, Any], scope: bool,
                         tags: List[str]) -> Judgement:
        if "skipped" in obs:
            tags.append("record-skipped")
            return Judgement(True, True, in_scope=scope, tags=tuple(tags))
        if "err" in obs:
            return Judgement(False, False, in_scope=scope, tags=tuple(tags),
                             detail=f"writing the record out and reading it back failed: {obs.get('msg')}")
        from Bio.Seq import Seq
        loc, dna = case["loc"], case["dna"]
        model, spec, made = drv["model"], drv["spec"], obs["made"]
        gene_seq = obs["gene_extract"]
        whole = str(Seq(gene_seq[:len(gene_seq) // 3 * 3]).translate())
        corr = obs["gene"]["loc"] == model["gene"]
        detail = "" if corr else f"gene re-read at {obs['gene']['loc']}, model {model['gene']}"
        spec_ok = spec["gene"] is True and obs["gene"]["extract"] == gene_seq \
            and ("M" + obs["gene"]["translation"][1:]) == ("M" + whole[1:])
        if not spec_ok:
            detail = (f"gene {loc['parts']} is read back at {obs['gene']['loc']['parts']}: it no longer encodes its "
                      f"translation ({obs['gene']['extract']} vs {gene_seq})")
        for key, sl, stretch in (("motif", spec["motif_slice"], whole[case["s"]:case["e"]]), ("tta", spec["tta_slice"], None)):
            if key not in made:
                continue
            tags.append("reread-" + key)
            m = model[key].get("ok")
            if key not in obs:
                corr = False
                detail = detail or f"{key} lost on re-reading"
                continue
            if obs[key]["loc"] != m:
                corr = False
                detail = detail or f"{key} re-read at {obs[key]['loc']}, model {model[key]}"
            want = transcribed(loc, dna, sl)
            good = spec[key] is True and obs[key]["extract"] == want
            if good and stretch is not None:
                good = str(Seq(obs[key]["extract"]).translate()) == stretch == obs[key]["translation"]
            if spec_ok and not good:
                spec_ok = False
                detail = (f"{key} written at {made[key]['parts']} inside gene {loc['parts']} is read back at "
                          f"{obs[key]['loc']['parts']} and extracts {obs[key]['extract']!r} instead of {want!r}")
        if made.get("prepeptide") and spec_ok:
            tags.append("reread-prepeptide")
            total = len(gene_seq) // 3
            bounds = {"leader": (0, case["leader"]), "core": (case["leader"], total - case["tail"]),
                      "tail": (total - case["tail"], total)}
            sections = obs.get("prepeptide") or {}
            for name, (a, b) in bounds.items():
                if a == b:
                    continue
                got = (sections.get(name) or {}).get("extract")
                if got != gene_seq[3 * a:3 * b]:
                    spec_ok = False
                    detail = (f"prepeptide {name} of gene {loc['parts']} after re-reading: "
                              f"{(sections.get(name) or {}).get('loc')} extracts {got!r}, not {gene_seq[3 * a:3 * b]!r}")
                    break
        nontrivial = scope and bool(drv["bridges"]) and bool(made)
        return Judgement(corr, spec_ok or not scope, in_scope=scope, nontrivial=nontrivial, tags=tuple(tags), detail=detail)

    @staticmethod
    def _judge_cds_table(case: Dict[str, Any], obs: Dict[str, Any], drv: Dict[str, Any], scope: bool,
                         tags: List[str]) -> Judgement:
        if "skipped" in obs:
            tags.append("cds-skipped")
            return Judgement(True, True, in_scope=scope, tags=tuple(tags))
        if "err" in obs:
            return Judgement(False, False, in_scope=scope, tags=tuple(tags), detail=f"adapter failed: {obs}")
        model = drv["model"]
        own = case["qual"] is not None
        tags.append("own-table" if own else "record-table")
        corr = obs["table"] == model["table"] and obs["gene_translation"] == model["translation"] \
            and obs["gene_loc"] == case["loc"]
        detail = "" if corr else f"model {model} vs implementation table {obs['table']} translation {obs['gene_translation']!r}"
        spec_ok = obs["table"] == (case["qual"] if own else obs["record_table"])
        translation = obs["gene_translation"]
        differs = False
        for sub in obs["subs"]:
            s, e = sub["s"], sub["e"]
            if e > len(translation):
                continue            # beyond the (stop-terminated) product: nothing is claimed
            if "err" in sub:
                spec_ok = False
                detail = f"residues [{s},{e}) of a {len(translation)}-residue product refused: {sub['err']}"
                break
            encoded = sub["encoded"].replace("*", "X")
            want = translation[s:e]
            if s == 0:                  # an alternate start codon is shown as M
                encoded, want = "M" + encoded[1:], want
            if encoded != want:
                spec_ok = False
                detail = (f"gene at {case['loc']['parts']} (transl_table {obs['table']}, translation {translation!r}): "
                          f"residues [{s},{e}) -> {sub['loc']['parts']} encode {sub['encoded']!r} under the gene's table, "
                          f"but that stretch of the gene's translation is {translation[s:e]!r}")
                break
        other = [a for t, a in drv.get("aas_echo", [])]
        nontrivial = own and scope
        return Judgement(corr, spec_ok or not scope, in_scope=scope, nontrivial=nontrivial, tags=tuple(tags), detail=detail)

    def shrink(self, case: Dict[str, Any]) -> Iterator[Dict[str, Any]]:
        loc = case["loc"]
        parts = loc["parts"]
        if len(parts) > 1:
            for i in range(len(parts)):
                rest = parts[:i] + parts[i + 1:]
                yield dict(case, loc={"c": len(rest) > 1, "parts": rest})
        for i, (lo, hi, strand) in enumerate(parts):
            if hi - lo > 1:
                for new in ([lo + 1, hi, strand], [lo, hi - 1, strand]):
                    yield dict(case, loc={"c": loc["c"], "parts": parts[:i] + [new] + parts[i + 1:]})
        for key in ("s", "e", "off", "leader", "tail"):
            if key in case and case[key] > 0:
                yield dict(case, **{key: case[key] - 1})


PROP = C09
