"""C02 — rule text is parsed by the documented grammar, precedence and aliases.

Implementation under test: `rule_parser.Tokeniser`, `rule_parser.Parser` (directly and through
`cluster_prediction.create_rules`, which shares aliases and rules between files),
`DetectionRule.reconstruct_rule_text` + a fresh `Parser` on the regenerated text, and the three
shipped rule files with the real signature names and categories.

A generated case is a list of rule-file texts.  Well-formed files are derived from the documented
grammar (the generator keeps the syntax trees: they are the independent oracle, turned into the
expected rule objects by the Lean spec `ASV.Grammar.shape…`); every well-formed file is also the
seed of single-token corruptions and of targeted ill-formed variants, for which the oracle is the
model (error kind / rules) plus the executable well-formedness predicate `rulesOk` evaluated on
whatever the implementation accepted.
"""
from __future__ import annotations

import atexit
import itertools
import os
import random
import shutil
import signal
import tempfile
from typing import Any, Dict, Iterator, List, Optional, Tuple

from ..framework import Judgement, Property
from . import common

RP = "antismash/common/hmm_rule_parser/rule_parser.py"

SYMBOLS = ["(", ")", "[", "]", ",", "."]
KEYWORDS = ["RULE", "CATEGORY", "DESCRIPTION", "EXAMPLE", "RELATED", "SUPERIORS", "CUTOFF", "NEIGHBOURHOOD",
            "CONDITIONS", "EXTENDERS", "DEFINE", "AS"]
PROFILES = ["a", "b", "c", "d", "PKS_KS", "AMP-binding", "x1", "1a", "cds1", "notx", "andy", "ORF", "minimumx",
            "A-b_c", "clusters", "t2ks", "p450"]
UNKNOWN = ["zz9", "unk-1", "Q"]
CATEGORIES = ["cat", "PKS", "other"]
RULE_NAMES = ["r1", "r2", "T1PKS", "trans-AT", "rule_x", "r3", "NRPS-like", "r4", "r5"]
ALIAS_NAMES = ["ANY", "KS_ALL", "al1", "al2", "Grp", "X-1"]
WORDS = ["Type", "I", "polyketide", "and", "or", "not", "(", ")", "cds", "like", "1-2", "type-I", "https://doi.org/10",
         "minimum", ",", "[", "3", "a", "cluster", "score", "x:y", "-", "_", "b"]
MULTIPLIERS = [[1, 1], [1, 1], [3, 2], [1, 2], [2, 1], [5, 4], [1, 4], [1, 8], [3, 1]]
WHITESPACE = [" ", " ", " ", "  ", "\n", "\n    ", "\t", " \t ", "\r\n", "\r", "\x0b", "\x0c"]
COMMENTS = ["# comment", "#", "# RULE x CONDITIONS (", "# see https://doi.org/10.1/x $%&", "#a or b", "# DEFINE q AS r"]


class Timeout(Exception):
    pass


def _alarm(_sig: int, _frame: Any) -> None:
    raise Timeout()


# ----------------------------------------------------------------------------- grammar side (oracle)
# OrE = [AndE, …]   AndE = [Atom, …]
# Atom = ["id", neg, name] | ["paren", neg, OrE] | ["cds", neg, OrE] | ["minimum", neg, n, [ids]] | ["minscore", neg, name, n]

def shape_atom(a: List[Any]) -> List[Any]:
    t = a[0]
    if t == "id":
        return ["single", a[1], a[2]]
    if t == "paren":
        return ["group", a[1], shape_or(a[2])]
    if t == "cds":
        return ["cds", a[1], shape_or(a[2])]
    if t == "minimum":
        return ["minimum", a[1], a[2], a[3]]
    return ["score", a[1], a[2], a[3]]


def shape_and(chain: List[Any]) -> List[Any]:
    atoms = [shape_atom(a) for a in chain]
    return atoms[0] if len(atoms) == 1 else ["conj", atoms]


def shape_or(o: List[Any]) -> List[Any]:
    return [shape_and(chain) for chain in o]


def positive(c: List[Any]) -> bool:
    if c[0] in ("single", "score", "minimum"):
        return not c[1]
    if c[0] == "conj":
        return any(positive(s) for s in c[1])
    return (not c[1]) and any(positive(s) for s in c[2])


def pp_atom(a: List[Any], rng: random.Random) -> List[str]:
    out = ["not"] if a[1] else []
    t = a[0]
    if t == "id":
        return out + [a[2]]
    if t == "paren":
        return out + ["("] + pp_or(a[2], rng) + [")"]
    if t == "cds":
        return out + ["cds", "("] + pp_or(a[2], rng) + [")"]
    num = str(a[2] if t == "minimum" else a[3])
    if rng.random() < 0.1:
        num = "0" + num
    if t == "minimum":
        ids: List[str] = []
        for i, name in enumerate(a[3]):
            ids += ([","] if i else []) + [name]
        return out + ["minimum", "(", num, ",", "["] + ids + ["]", ")"]
    return out + ["minscore", "(", a[2], ",", num, ")"]


def pp_and(chain: List[Any], rng: random.Random) -> List[str]:
    out: List[str] = []
    for i, a in enumerate(chain):
        out += (["and"] if i else []) + pp_atom(a, rng)
    return out


def pp_or(o: List[Any], rng: random.Random) -> List[str]:
    out: List[str] = []
    for i, chain in enumerate(o):
        out += (["or"] if i else []) + pp_and(chain, rng)
    return out


def tree_depth(o: List[Any]) -> int:
    best = 1
    for chain in o:
        for a in chain:
            if a[0] in ("paren", "cds"):
                best = max(best, 1 + tree_depth(a[2]))
            elif a[0] != "id":
                best = max(best, 2)
    return best + (1 if len(o) > 1 or any(len(chain) > 1 for chain in o) else 0)


class Gen:
    """grammar-derived rule files"""

    def __init__(self, rng: random.Random) -> None:
        self.rng = rng

    def _distinct(self, items: List[Any], shape: Any) -> List[Any]:
        seen, out = set(), []
        for item in items:
            key = common.cond_str(shape(item))
            if key not in seen:
                seen.add(key)
                out.append(item)
        return out

    def atom(self, depth: int, in_cds: bool) -> List[Any]:
        rng = self.rng
        neg = rng.random() < 0.25
        r = rng.random()
        if depth <= 0 or r < 0.45:
            return ["id", neg, rng.choice(PROFILES)]
        if r < 0.70:
            return ["paren", neg, self.or_(depth - 1, in_cds)]
        if r < 0.85 and not in_cds:
            while True:
                body = self.or_(depth - 1, True)
                if not (len(body) == 1 and len(body[0]) == 1 and body[0][0][0] == "id"):
                    return ["cds", neg, body]
        if r < 0.93 and not in_cds:
            opts = rng.sample(PROFILES, rng.choice([1, 2, 3, 5]))
            return ["minimum", neg, rng.choice([1, 1, 2, 3, 12]), opts]
        if r < 0.97:
            return ["minscore", neg, rng.choice(PROFILES), rng.choice([0, 5, 150])]
        return ["id", neg, rng.choice(PROFILES)]

    def and_(self, depth: int, in_cds: bool) -> List[Any]:
        n = self.rng.choice([1, 1, 2, 2, 3, 4])
        return self._distinct([self.atom(depth, in_cds) for _ in range(n)], shape_atom)

    def or_(self, depth: int, in_cds: bool) -> List[Any]:
        n = self.rng.choice([1, 1, 2, 2, 3])
        return self._distinct([self.and_(depth, in_cds) for _ in range(n)], shape_and)

    def conditions(self, depth: int) -> List[Any]:
        while True:
            tree = self.or_(depth, False)
            if positive(["group", False, shape_or(tree)]):
                return tree

    def rule(self, name: str, earlier: List[str]) -> Dict[str, Any]:
        rng = self.rng
        spec: Dict[str, Any] = {
            "name": name, "category": rng.choice(CATEGORIES),
            "cutoff_kb": rng.choice([0, 1, 5, 10, 20, 45, 100, 7]), "nbh_kb": rng.choice([0, 1, 10, 15, 20, 33]),
            "superiors": rng.sample(earlier, min(len(earlier), rng.choice([1, 1, 2, 3]))) if earlier and rng.random() < 0.5 else [],
            "conds": self.conditions(rng.choice([0, 1, 2, 2, 3, 3, 4, 6])), "extenders": None}
        spec["superiors"] = spec["superiors"][:len(earlier)]
        if rng.random() < 0.2:
            if rng.random() < 0.5:
                spec["extenders"] = ["id", False, rng.choice(PROFILES)]
            else:
                while True:
                    body = self.or_(1, True)
                    if not (len(body) == 1 and len(body[0]) == 1 and body[0][0][0] == "id") \
                            and positive(["cds", False, shape_or(body)]):
                        spec["extenders"] = ["cds", False, body]
                        break
        return spec

    def rule_tokens(self, spec: Dict[str, Any]) -> List[str]:
        """the rule as a token list; free-text sections use random non-keyword words"""
        rng = self.rng
        toks = ["RULE", spec["name"], "CATEGORY", spec["category"]]
        if rng.random() < 0.5:
            toks += ["DESCRIPTION"] + [rng.choice(WORDS) for _ in range(rng.choice([0, 1, 3, 6]))]
        for _ in range(rng.choice([0, 0, 0, 1, 2])):
            toks += ["EXAMPLE", "NCBI", rng.choice(["AB123", "NC_0042", "X"]), ".", rng.choice(["1", "2", "10"]),
                     rng.choice(["0-10", "5-5", "100-20000", "1_0-2_0"])]
            toks += [rng.choice(WORDS) for _ in range(rng.choice([0, 0, 1, 3]))]
        if rng.random() < 0.25:
            rel = rng.sample(PROFILES + UNKNOWN, rng.choice([1, 2, 3]))
            toks += ["RELATED"] + list(itertools.chain.from_iterable(([","] if i else []) + [n] for i, n in enumerate(rel)))
        if spec["superiors"]:
            toks += ["SUPERIORS"] + list(itertools.chain.from_iterable(
                ([","] if i else []) + [n] for i, n in enumerate(spec["superiors"])))

        def num(n: int) -> str:
            return ("00" if rng.random() < 0.1 else "") + str(n)
        toks += ["CUTOFF", num(spec["cutoff_kb"]), "NEIGHBOURHOOD", num(spec["nbh_kb"]), "CONDITIONS"]
        toks += pp_or(spec["conds"], rng)
        if spec["extenders"] is not None:
            toks += ["EXTENDERS"] + pp_atom(spec["extenders"], rng)
        return toks

    def add_aliases(self, files: List[List[List[str]]], taken: List[str]) -> int:
        """replace random keyword-free token spans of later items by alias identifiers, inserting the
        definition somewhere before the use (possibly in an earlier file).  `files[f]` is a list of
        items (token lists, each a RULE … or DEFINE … block).  Returns the number of aliases used."""
        rng = self.rng
        used = 0
        names = [n for n in ALIAS_NAMES if n not in taken]
        rng.shuffle(names)
        for name in names[:rng.choice([0, 0, 1, 1, 2, 3])]:
            positions = [(f, i) for f, items in enumerate(files) for i in range(len(items))]
            f, i = rng.choice(positions)
            item = files[f][i]
            # candidate spans: outside free text, no keyword, not the token right after RULE/DEFINE
            free = False
            ok = []
            for k, tok in enumerate(item):
                if tok in KEYWORDS:
                    free = tok in ("DESCRIPTION", "EXAMPLE")
                    ok.append(False)
                else:
                    ok.append(not free and not (k > 0 and item[k - 1] in ("RULE", "DEFINE")))
            starts = [k for k in range(len(item)) if ok[k]]
            if not starts:
                continue
            lo = rng.choice(starts)
            hi = lo + 1
            want = rng.choice([1, 1, 2, 3, 5, 9])
            while hi < len(item) and ok[hi] and hi - lo < want:
                hi += 1
            body = item[lo:hi]
            if any(tok == name for it in itertools.chain.from_iterable(files) for tok in it):
                continue
            item[lo:hi] = [name]
            # definition goes before the use: same file before item i, or the end of an earlier file
            if any(tok in ALIAS_NAMES for tok in body):
                df, at = f, i   # after the definitions of the aliases the body itself uses
            else:
                df = rng.randrange(f + 1)
                at = rng.randrange(i + 1) if df == f else rng.randrange(len(files[df]) + 1)
            files[df].insert(at, ["DEFINE", name, "AS"] + body)
            used += 1
        return used

    def render(self, toks: List[str]) -> str:
        rng = self.rng
        out: List[str] = []
        if rng.random() < 0.15:
            out.append(rng.choice(COMMENTS) + "\n")
        for k, tok in enumerate(toks):
            if k:
                glue = tok in SYMBOLS or toks[k - 1] in SYMBOLS
                if glue and rng.random() < 0.6:
                    sep = ""
                else:
                    sep = rng.choice(WHITESPACE)
                    while rng.random() < 0.1:
                        sep += rng.choice(WHITESPACE)
                if rng.random() < 0.06:
                    # a comment may directly abut the token before it, and the next line may start in column 0
                    sep = (sep if rng.random() < 0.5 else "") + rng.choice(COMMENTS) + "\n" + rng.choice(["", "", " ", "\t"])
                out.append(sep)
            out.append(tok)
        if rng.random() < 0.3:
            out.append(rng.choice(["\n", " ", "\n# end\n", " #x\n\n"]))
        return "".join(out)

    def ruleset(self) -> Tuple[List[List[List[str]]], List[Dict[str, Any]], int]:
        """(files as lists of items, expected rule specs in order, aliases used)"""
        rng = self.rng
        nfiles = rng.choice([1, 1, 1, 2, 2, 3])
        names = rng.sample(RULE_NAMES, rng.choice([1, 1, 2, 3, 4, 6]))
        specs, files = [], [[] for _ in range(nfiles)]
        split = sorted(rng.randrange(nfiles) for _ in names)
        for name, f in zip(names, split):
            spec = self.rule(name, [s["name"] for s in specs])
            specs.append(spec)
            files[f].append(self.rule_tokens(spec))
        files = [f for f in files if f] or [[]]
        used = self.add_aliases(files, names)
        return files, specs, used


def lex(text: str) -> List[Tuple[str, str]]:
    """rough tokenisation of a rendered text into (separator-before, token) pairs, comments kept
    inside the separators (used for corruptions and shrinking only)"""
    out: List[Tuple[str, str]] = []
    sep, cur, i = "", "", 0
    while i < len(text):
        ch = text[i]
        if ch == "#":
            if cur:
                out.append((sep, cur))
                sep, cur = "", ""
            j = text.find("\n", i)
            j = len(text) if j < 0 else j + 1
            sep += text[i:j]
            i = j
            continue
        if ch.isspace():
            if cur:
                out.append((sep, cur))
                sep, cur = "", ""
            sep += ch
        elif ch in SYMBOLS:
            if cur:
                out.append((sep, cur))
                sep, cur = "", ""
            out.append((sep, ch))
            sep = ""
        else:
            cur += ch
        i += 1
    if cur:
        out.append((sep, cur))
    return out


def unlex(pairs: List[Tuple[str, str]]) -> str:
    out = []
    for k, (sep, tok) in enumerate(pairs):
        if k and not sep and not (tok in SYMBOLS or pairs[k - 1][1] in SYMBOLS):
            sep = " "
        out.append(sep + tok)
    return "".join(out)


REPLACEMENTS = SYMBOLS + ["and", "or", "not", "minimum", "cds", "minscore"] + KEYWORDS + \
    ["3", "0", "a", "b", "zz9", "1-2", "cluster", "score", "cat", "r1", "ANY"]


class C02(Property):
    ID = "C02"
    USES_TABLES = True
    SHAPE = [(RP, q) for q in (
        "TokenTypes", "TokenTypes.classify", "TokenTypes.is_a_rule_keyword", "Tokeniser.mapping",
        "Tokeniser.tokenise", "Tokeniser._finalise", "Token.__init__", "Token.__getattr__",
        "Conditions.__init__", "Conditions.contains_positive_condition", "Conditions.__str__",
        "AndCondition.__init__", "AndCondition.__str__", "MinimumCondition.__init__", "MinimumCondition.__str__",
        "CDSCondition.__str__", "SingleCondition.__init__", "SingleCondition.__str__", "ScoreCondition.__init__",
        "ScoreCondition.__str__", "DetectionRule.__init__", "DetectionRule.reconstruct_rule_text",
        "ExampleRecord.__init__", "ExampleRecord.__str__", "_STARTERS",
        "Parser.__init__", "Parser._verify_alias_name", "Parser._consume", "Parser._consume_int",
        "Parser._consume_identifier", "Parser._parse_alias", "Parser._parse_rule", "Parser._parse_description",
        "Parser._parse_example", "Parser._parse_related", "Parser._is_not", "Parser._parse_ands",
        "Parser._parse_conditions", "Parser._parse_single_condition", "Parser._parse_score", "Parser._parse_cds",
        "Parser._parse_group", "Parser._parse_minimum", "Parser._parse_list", "Parser._parse_comma_separated_ids",
        "Parser._parse_superiors", "is_legal_identifier", "find_condition_identifiers")] + [
        ("antismash/common/hmm_rule_parser/cluster_prediction.py", "create_rules"),
        ("antismash/common/hmm_rule_parser/structures.py", "Multipliers"),
        ("antismash/detection/hmm_detection/__init__.py", "_get_rule_files_for_strictness"),
        ("antismash/detection/hmm_detection/__init__.py", "get_ruleset"),
        ("antismash/detection/hmm_detection/__init__.py", "_get_rules"),
        ("antismash/detection/hmm_detection/__init__.py", "check_options"),
        ("antismash/detection/hmm_detection/__init__.py", "_STRICTNESS_LEVELS"),
        ("antismash/common/hmm_rule_parser/cluster_prediction.py", "Ruleset.__post_init__"),
        ("antismash/common/hmm_rule_parser/cluster_prediction.py", "Ruleset.copy_with_replacements"),
        ("antismash/common/hmm_rule_parser/cluster_prediction.py", "Ruleset.from_files"),
        ("antismash/common/hmm_rule_parser/cluster_prediction.py", "Ruleset.rules"),
        ("antismash/common/hmm_rule_parser/structures.py", "Multipliers.__post_init__"),
    ]
    RULE = ("rule files derived from the documented grammar (condition depth <= 6, redundant parentheses, not/and/or "
            "mixes, cds/minimum/minscore, 1-6 rules over 1-3 files sharing aliases and rules through create_rules, "
            "DEFINE aliases replacing random keyword-free token spans at every syntactic position incl. inside other "
            "definitions, DESCRIPTION/EXAMPLE/RELATED/SUPERIORS/EXTENDERS sections, dyadic multipliers, every kind of "
            "whitespace and # comments between tokens) checked against the grammar oracle (Lean `shape`); all or a "
            "sample of their single-token corruptions (delete / duplicate / repeat a list element / swap / replace by every token kind / "
            "stray character) and targeted ill-formed variants (every class the property lists) checked against the "
            "model and the well-formedness predicate; the three shipped rule files with the real signatures; the "
            "tokeniser alone on random character strings; thorough/deep: every token string of length <= 6 (5) over "
            "{a,b,and,or,not,(,),cds} after a fixed header; sequences of 2-6 hmm_detection.get_ruleset() calls in one "
            "process through build_config (taxon, fungal multipliers incl. defaults and invalid ones, rule/category "
            "limits, repeated requests; in half of the steps preceded by check_options, whose verdict is checked against "
            "the Lean spec `optionsOk`), every ruleset read when returned and again after the last call, checked "
            "against the Lean spec `wanted` (shipped rules restricted and scaled once); Ruleset.from_files with "
            "multipliers; `levels`: _get_rule_files_for_strictness and _get_rules for every level (and an unknown one) against "
            "the model's ruleFilesFor, each level's rules a prefix of the next; `continuations`: a base parsed once and its rule list object handed as existing_rules to 2-4 "
            "follow-up Parser(...) calls (branching from the base or from a continuation, referring to / redefining rules "
            "only another branch defined), every list read when returned and after the last parse, each outcome "
            "checked against the text parsed after the value of the list it was given; `layout`: written words (keywords, identifiers, numbers, symbols, tokens of generated files) with "
            "arbitrary gaps of whitespace characters and #-comments, incl. a comment as the only separator (abutting the "
            "word before it, next word in column 0) and an unterminated tail comment, re-rendered by the Lean spec and "
            "checked against `tokenise_layout`'s right-hand side.  non-trivial = an accepted file with a condition of "
            "depth >= 2, or a rejected corruption of one; distinct by text")
    TRUSTED = ["Python str.isalnum/isalpha/isdigit and int() are modelled for ASCII only (generators emit ASCII)",
               "`text.expandtabs()` and line/position bookkeeping only affect error messages, which are not observed",
               "multipliers are modelled as exact fractions; generated multipliers are dyadic so the float product is exact",
               "error *kinds* are compared (syntax / value / attribute), not messages",
               "get_ruleset sequences: build_config, the signature/HMM file readers and the equivalence-group / dynamic-"
               "profile checks of Ruleset.__post_init__ run for real but are not modelled; fungal multipliers reach Lean "
               "as float.as_integer_ratio() (exact)"]

    def __init__(self) -> None:
        self._tmp: Optional[str] = None
        self._shipped_ctx: Optional[Tuple[List[str], List[str]]] = None

    # ------------------------------------------------------------------ generators
    def _case(self, files: List[str], rng: random.Random, **extra: Any) -> Dict[str, Any]:
        mul_c, mul_n = (rng.choice(MULTIPLIERS), rng.choice(MULTIPLIERS)) if rng.random() < 0.4 else ([1, 1], [1, 1])
        case = {"kind": "parse", "files": files, "sigs": PROFILES, "cats": CATEGORIES, "cmul": mul_c, "nmul": mul_n,
                "via": "create" if len(files) > 1 or rng.random() < 0.3 else "parser"}
        case.update(extra)
        return case

    def wellformed(self, rng: random.Random) -> Tuple[Dict[str, Any], List[List[List[str]]]]:
        gen = Gen(rng)
        files, specs, used = gen.ruleset()
        texts = ["".join(gen.render(item) + rng.choice(["\n", "\n\n", " ", "\n# c\n"]) for item in items)
                 for items in files]
        case = self._case(texts, rng, expect=specs, aliases=used)
        return case, files

    def corruptions(self, rng: random.Random, case: Dict[str, Any], count: Optional[int]) -> Iterator[Dict[str, Any]]:
        """single-token corruptions of one file of a well-formed case (all of them when count is None)"""
        base = {k: v for k, v in case.items() if k not in ("expect", "aliases")}
        f = rng.randrange(len(case["files"]))
        pairs = lex(case["files"][f])
        if not pairs:
            return
        muts: List[Tuple[str, int, Optional[str]]] = []
        for i in range(len(pairs)):
            muts += [("del", i, None), ("dup", i, None)]
            if i and pairs[i - 1][1] in ("SUPERIORS", "RELATED", ",", "["):
                muts.append(("dupc", i, None))      # repeat an element of a comma separated list: `x` -> `x, x`
            if i + 1 < len(pairs):
                muts.append(("swap", i, None))
            muts += [("rep", i, r) for r in REPLACEMENTS if r != pairs[i][1]]
        muts.append(("char", 0, None))
        chosen = muts if count is None else [rng.choice(muts) for _ in range(count)]
        for op, i, rep in chosen:
            new = list(pairs)
            if op == "del":
                new = pairs[:i] + pairs[i + 1:]
            elif op == "dup":
                new = pairs[:i + 1] + [(" ", pairs[i][1])] + pairs[i + 1:]
            elif op == "dupc":
                new = pairs[:i + 1] + [("", ","), (" ", pairs[i][1])] + pairs[i + 1:]
            elif op == "swap":
                new[i], new[i + 1] = (pairs[i][0], pairs[i + 1][1]), (pairs[i + 1][0], pairs[i][1])
            elif op == "rep":
                new[i] = (pairs[i][0], rep or "")
            text = unlex(new)
            if op == "char":
                pos = rng.randrange(len(text) + 1)
                text = text[:pos] + rng.choice(["$", "%", "!", ":", "/", "#", "{", "=", "'", "\""]) + text[pos:]
            files = list(case["files"])
            files[f] = text
            yield dict(base, files=files, corrupt=op)

    def illformed(self, rng: random.Random) -> Iterator[Dict[str, Any]]:
        """targeted violations of each class the property lists; each must be rejected"""
        gen = Gen(rng)
        files, specs, _ = gen.ruleset()
        items = [list(it) for it in itertools.chain.from_iterable(files)]
        rule_idx = [k for k, it in enumerate(items) if it[0] == "RULE"]

        def emit(new_items: List[List[str]], cls: str, split: bool = False) -> Dict[str, Any]:
            texts = [gen.render(it) + "\n" for it in new_items]
            if split and len(texts) > 1:
                cut = rng.randrange(1, len(texts))
                file_texts = ["".join(texts[:cut]), "".join(texts[cut:])]
            else:
                file_texts = ["".join(texts)]
            return self._case(file_texts, rng, expect_error=cls)

        k = rng.choice(rule_idx)
        it = items[k]
        ci = it.index("CONDITIONS")
        ei = it.index("EXTENDERS") if "EXTENDERS" in it else len(it)
        conds = it[ci + 1:ei]

        def with_conds(new: List[str]) -> List[List[str]]:
            return items[:k] + [it[:ci + 1] + new + it[ei:]] + items[k + 1:]

        def with_item(new: List[str]) -> List[List[str]]:
            return items[:k] + [new] + items[k + 1:]
        name = it[1]
        a, b = rng.sample(PROFILES, 2)
        yield emit(with_conds(conds + ["and", rng.choice(UNKNOWN)]), "unknown-profile")
        yield emit(with_item([it[0], it[1], it[2], "nocat"] + it[4:]), "unknown-category")
        yield emit(items + [["RULE", name, "CATEGORY", "cat", "CUTOFF", "1", "NEIGHBOURHOOD", "1", "CONDITIONS", a]],
                   "duplicate-rule", split=True)
        yield emit([["DEFINE", "dupal", "AS", a]] + items + [["DEFINE", "dupal", "AS", b]], "duplicate-alias", split=True)
        yield emit([["DEFINE", rng.choice(PROFILES + CATEGORIES), "AS", a]] + items, "alias-clash")
        yield emit(items + [["DEFINE", name, "AS", a]], "alias-clash-rule", split=True)
        yield emit(items[:k] + [["DEFINE", "selfal", "AS", a, "or", "selfal"]] + items[k:], "alias-self-reference")
        yield emit([["DEFINE", "first", "AS", a, "and", "later"], ["DEFINE", "later", "AS", b]] + items,
                   "alias-used-before-definition")
        rep = rng.choice([[a, "or", a], [a, "and", b, "and", a], ["(", a, "or", b, ")", "or", "(", a, "or", b, ")"],
                          [a, "or", "(", a, ")"], ["not", a, "and", b, "and", "not", a],
                          ["cds", "(", a, "and", b, "or", a, "and", b, ")"]])
        yield emit(with_conds(rep), "repeated-operand")
        yield emit(with_conds(["minimum", "(", "2", ",", "[", a, ",", b, ",", a, "]", ")"]), "repeated-minimum-option")
        yield emit(with_conds(["minimum", "(", "0", ",", "[", a, "]", ")"]), "minimum-count-zero")
        for kw in ("CATEGORY", "CUTOFF", "NEIGHBOURHOOD", "CONDITIONS"):
            j = it.index(kw)
            nxt = j + 2 if kw != "CONDITIONS" else ei
            yield emit(with_item(it[:j] + it[nxt:]), "missing-" + kw.lower())
        yield emit(with_conds(["("] + conds), "unbalanced-open")
        yield emit(with_conds(conds + [")"]), "unbalanced-close")
        yield emit(with_conds(["cds", "(", a, ")"]), "cds-single-identifier")
        yield emit(with_conds(conds + ["and", "not"]), "trailing-not")
        yield emit(with_conds(rng.choice([["not", a], ["not", a, "and", "not", b], ["not", "(", a, "or", b, ")"],
                                          ["not", "cds", "(", a, "and", b, ")"], ["not", "minimum", "(", "1", ",", "[", a, "]", ")"]])),
                   "no-positive-requirement")
        later = [n for n in RULE_NAMES if n not in [s["name"] for s in specs]]
        head = it[:it.index("CUTOFF")]
        if "SUPERIORS" in head:
            head = head[:head.index("SUPERIORS")]
        tail = it[it.index("CUTOFF"):]
        yield emit(with_item(head + ["SUPERIORS", rng.choice(later + [name])] + tail), "superior-undefined")
        earlier = [items[q][1] for q in rule_idx if q < k]
        if earlier:
            yield emit(with_item(head + ["SUPERIORS", earlier[0], ",", earlier[0]] + tail), "superior-duplicate")
        # a repeated name in a chain of >= 3 rules: the named rule inherits superiors of its own, which must not mask the repeat
        cat = it[3]

        def chain_rule(nm: str, sup: List[str]) -> List[str]:
            return ["RULE", nm, "CATEGORY", cat] + (["SUPERIORS"] + sup if sup else []) + \
                   ["CUTOFF", "5", "NEIGHBOURHOOD", "5", "CONDITIONS", rng.choice(PROFILES)]
        chain = [chain_rule("ch_top", []), chain_rule("ch_mid", ["ch_top"]), chain_rule("ch_up", ["ch_mid"])]
        repeats = rng.choice([
            [chain_rule("ch_low", ["ch_mid", ",", "ch_mid"])],
            [chain_rule("ch_low", ["ch_mid", ",", "ch_top", ",", "ch_mid"])],
            [chain_rule("ch_low", ["ch_up", ",", "ch_up"])],
            [chain_rule("ch_low", ["ch_up", ",", "ch_up", ",", "ch_up"])],
            [chain_rule("ch_low", ["ch_up", ",", "ch_mid", ",", "ch_up", ",", "ch_mid"])]])
        yield emit(items + chain + repeats, "superior-duplicate-chain", split=rng.random() < 0.5)
        following = [items[q][1] for q in rule_idx if q > k]
        if following:
            yield emit(with_item(head + ["SUPERIORS", following[0]] + tail), "superior-defined-later")
        yield emit([["DEFINE", "rn", "AS", "newname"], ["RULE", "rn"] + it[2:]], "alias-as-rule-name")
        yield emit(items[:k] + [it[:ei] + ["EXTENDERS", "cds", "(", "not", a, rng.choice(["and", "or"]), "not", b, ")"]]
                   + items[k + 1:], "extenders-negative")

    def token_strings(self, rng: random.Random, tier: str, deep: bool) -> Iterator[Dict[str, Any]]:
        """every string of <= n condition tokens after a fixed header (correspondence only)"""
        alphabet = ["a", "b", "and", "or", "not", "(", ")", "cds"]
        n = 6 if tier == "thorough" else 5
        total = 0
        head = "RULE r CATEGORY cat CUTOFF 1 NEIGHBOURHOOD 1 CONDITIONS "
        for length in range(0, n + 1):
            for combo in itertools.product(alphabet, repeat=length):
                total += 1
                yield {"kind": "parse", "files": [head + " ".join(combo)], "sigs": ["a", "b"], "cats": ["cat"],
                       "cmul": [1, 1], "nmul": [1, 1], "via": "parser", "small": True}
        self.exhaustive_done = True
        self.extra_coverage = {"small_scope_cases": total, "small_scope_max_tokens": n}

    def tokeniser_cases(self, rng: random.Random, count: int) -> Iterator[Dict[str, Any]]:
        chars = list("ab1_-.:/#()[], \n\t\r$") + ["and", "RULE", "cds", "12", "cluster", "score", "x-", "\x0b", "\x0c", "AS"]
        for _ in range(count):
            text = "".join(rng.choice(chars) for _ in range(rng.choice([1, 3, 8, 20])))
            yield {"kind": "tokens", "text": text}

    # layout: written words with arbitrary filler between them, in the vocabulary of Spec/TokenLayout.lean
    LAYOUT_WORDS = ["a", "b", "not", "and", "or", "cds", "minimum", "minscore", "RULE", "CATEGORY", "CUTOFF", "CONDITIONS",
                    "DEFINE", "AS", "SUPERIORS", "12", "0", "x-y", "-a", "_b", "PKS_KS", "a:b", "x/y", "http://u/v", "AMP-binding",
                    "(", ")", "[", "]", ",", "."]
    COMMENT_BODIES = ["", "x", " note", " RULE x CONDITIONS (", "# twice", " see https://doi.org/10.1/x $%&", "a or b", "\tq\r", " "]
    WS_CHARS = [" ", " ", "\n", "\n", "\t", "\r", "\x0b", "\x0c"]

    def layout_gap(self, rng: random.Random, may_be_empty: bool) -> List[Dict[str, str]]:
        roll = rng.random()
        if may_be_empty and roll < 0.35:
            return []
        if roll < 0.55:
            gap = [{"ws": rng.choice(self.WS_CHARS)}]
        elif roll < 0.8:
            gap = [{"c": rng.choice(self.COMMENT_BODIES)}]       # the comment abuts the word before it, the next is in column 0
        elif roll < 0.9:
            gap = [{"c": rng.choice(self.COMMENT_BODIES)}, {"c": rng.choice(self.COMMENT_BODIES)}]
        else:
            gap = [{"ws": rng.choice(self.WS_CHARS)}, {"c": rng.choice(self.COMMENT_BODIES)}]
        while rng.random() < 0.2:
            gap.append({"ws": rng.choice(self.WS_CHARS)} if rng.random() < 0.6 else {"c": rng.choice(self.COMMENT_BODIES)})
        return gap

    @staticmethod
    def layout_text(items: List[Dict[str, Any]], tail: Dict[str, Any]) -> str:
        def gap_text(gap: List[Dict[str, str]]) -> str:
            return "".join(g["ws"] if "ws" in g else "#" + g["c"] + "\n" for g in gap)
        return ("".join(gap_text(it["gap"]) + it["w"] for it in items) + gap_text(tail["gap"])
                + ("#" + tail["open"] if tail.get("open") is not None else ""))

    def layout_case(self, rng: random.Random, words: List[str]) -> Dict[str, Any]:
        items = []
        prev_word = False
        for w in words:
            is_word = w not in SYMBOLS
            items.append({"gap": self.layout_gap(rng, may_be_empty=not (prev_word and is_word)), "w": w})
            prev_word = is_word
        tail = {"gap": self.layout_gap(rng, True) if rng.random() < 0.5 else [],
                "open": rng.choice(self.COMMENT_BODIES) if rng.random() < 0.25 else None}
        return {"kind": "layout", "items": items, "tail": tail, "text": self.layout_text(items, tail)}

    def layout_cases(self, rng: random.Random, count: int) -> Iterator[Dict[str, Any]]:
        # the two smallest texts in which only the comment separates two words
        for words in (["not", "b"], ["CATEGORY", "C"]):
            items = [{"gap": [], "w": words[0]}, {"gap": [{"c": "x"}], "w": words[1]}]
            tail = {"gap": [], "open": None}
            yield {"kind": "layout", "items": items, "tail": tail, "text": self.layout_text(items, tail)}
        for k in range(count):
            if k % 3 == 0:   # the tokens of a generated rule file
                files, _, _ = Gen(rng).ruleset()
                words = [tok for item in files[0] for tok in item][:rng.choice([6, 15, 40])]
            else:
                words = [rng.choice(self.LAYOUT_WORDS) for _ in range(rng.choice([1, 2, 3, 5, 9]))]
            if words:
                yield self.layout_case(rng, words)

    # continuations: one base parsed once, its rule list handed as existing_rules to several follow-up parses
    def continuation_cases(self, rng: random.Random, count: int) -> Iterator[Dict[str, Any]]:
        head = "RULE {} CATEGORY cat {}CUTOFF 10 NEIGHBOURHOOD 10 CONDITIONS {}\n"
        # the smallest sequence: base, base + extra, base + a rule below extra (must be rejected)
        yield {"kind": "continuations", "sigs": PROFILES, "cats": CATEGORIES, "cmul": [1, 1], "nmul": [1, 1], "steps": [
            {"from": None, "text": head.format("base", "", "a")},
            {"from": 0, "text": head.format("extra", "", "b")},
            {"from": 0, "text": head.format("other", "SUPERIORS extra ", "c")}]}
        for _ in range(count):
            gen = Gen(rng)
            names = rng.sample(RULE_NAMES, min(len(RULE_NAMES), 6))
            base_names = names[:rng.choice([1, 2, 3])]
            specs: List[Dict[str, Any]] = []
            for nm in base_names:
                specs.append(gen.rule(nm, [s["name"] for s in specs]))
            steps: List[Dict[str, Any]] = [{"from": None, "text": "".join(gen.render(gen.rule_tokens(sp)) + "\n" for sp in specs)}]
            defined = {0: list(base_names)}
            fresh = names[len(base_names):]
            for k in range(1, rng.choice([3, 3, 4, 5])):
                src = rng.choice(list(defined))                     # continue from the base or from a continuation
                known = defined[src]
                elsewhere = [n for q, ns in defined.items() if q != src for n in ns if n not in known]
                nm = rng.choice(fresh + elsewhere) if elsewhere and rng.random() < 0.4 else rng.choice(fresh)
                spec = gen.rule(nm, known)
                if elsewhere and rng.random() < 0.5:                # refer to a rule only another branch defined
                    spec["superiors"] = (spec["superiors"] + [rng.choice(elsewhere)])[-2:]
                steps.append({"from": src, "text": gen.render(gen.rule_tokens(spec)) + "\n"})
                defined[k] = known + [nm]
            yield {"kind": "continuations", "sigs": PROFILES, "cats": CATEGORIES, "cmul": [1, 1], "nmul": [1, 1], "steps": steps}

    # rulesets: sequences of get_ruleset() calls within one process, and Ruleset.from_files
    MULT_VALUES = [0.5, 1.0, 1.0, 1.5, 2.0, 0.25, 3.0, 1.25, None, None]
    SOME_RULES = ["T1PKS", "NRPS", "terpene", "lanthipeptide-class-i", "T3PKS", "NRPS-like", "siderophore",
                  "fatty_acid", "saccharide", "no-such-rule"]
    SOME_CATS = ["PKS", "NRPS", "RiPP", "terpene", "saccharide", "other", "alkaloid"]

    def ruleset_step(self, rng: random.Random, level: str) -> Dict[str, Any]:
        step: Dict[str, Any] = {"strictness": level, "taxon": "fungi" if rng.random() < 0.6 else "bacteria",
                                "cmul": rng.choice(self.MULT_VALUES), "nmul": rng.choice(self.MULT_VALUES),
                                "names": [], "cats": []}
        if rng.random() < 0.3:
            step["names"] = rng.sample(self.SOME_RULES, rng.choice([1, 2, 3]))
        if rng.random() < 0.25:
            step["cats"] = rng.sample(self.SOME_CATS, rng.choice([1, 2]))
        if rng.random() < 0.04:
            step[rng.choice(["cmul", "nmul"])] = rng.choice([0.0, -1.0])
        # antiSMASH proper runs check_options (which builds and caches the ruleset) before the analysis asks for it
        step["check"] = rng.random() < 0.5
        return step

    def ruleset_cases(self, rng: random.Random, count: int) -> Iterator[Dict[str, Any]]:
        # the smallest sequence in which a later request could disturb an earlier ruleset, first
        yield {"kind": "rulesets", "steps": [
            {"strictness": "relaxed", "taxon": "fungi", "cmul": 2.0, "nmul": 1.5, "names": [], "cats": []},
            {"strictness": "relaxed", "taxon": "bacteria", "cmul": None, "nmul": None, "names": [], "cats": []},
            {"strictness": "relaxed", "taxon": "fungi", "cmul": 1.0, "nmul": 3.0, "names": ["T1PKS", "NRPS"], "cats": []}]}
        # every way check_options can object, each once, between two requests that are fine
        base = {"strictness": "strict", "taxon": "bacteria", "cmul": None, "nmul": None, "names": [], "cats": [], "check": True}
        yield {"kind": "rulesets", "steps": [
            dict(base, taxon="fungi", cmul=0.5),
            dict(base, cmul=0.0), dict(base, nmul=-1.0), dict(base, taxon="fungi", nmul=0.0),
            dict(base, names=["T1PKS", "no-such-rule"]), dict(base, cats=["PKS", "no-such-category"]),
            dict(base, strictness="relaxed", names=["T1PKS"], cats=["PKS"], taxon="fungi")]}
        for _ in range(count):
            level = rng.choice(["strict", "relaxed", "relaxed", "loose"])
            steps = []
            for _ in range(rng.choice([2, 3, 3, 4, 5])):
                steps.append(self.ruleset_step(rng, level if rng.random() < 0.85 else rng.choice(["strict", "relaxed", "loose"])))
            if rng.random() < 0.5:   # ask again for something asked before (cache hit)
                steps.append(dict(rng.choice(steps)))
            yield {"kind": "rulesets", "steps": steps}

    def from_files_cases(self, rng: random.Random, count: int) -> Iterator[Dict[str, Any]]:
        for _ in range(count):
            yield {"kind": "from_files", "strictness": rng.choice(["strict", "relaxed", "loose"]),
                   "cmul": rng.choice([1.0, 1.5, 2.0, 0.5]), "nmul": rng.choice([1.0, 1.5, 3.0, 0.25])}

    def cases(self, rng: random.Random, tier: str, deep: bool) -> Iterator[Dict[str, Any]]:
        yield from self.ruleset_cases(rng, 150 if tier == "thorough" else 40 if deep else 10)
        yield from self.from_files_cases(rng, 12 if deep else 4)
        yield {"kind": "levels", "ask": ["strict", "relaxed", "loose", "lax", "relaxed"]}
        yield from self.continuation_cases(rng, 3000 if tier == "thorough" else 600 if deep else 120)
        yield from self.layout_cases(rng, 20000 if tier == "thorough" else 4000 if deep else 400)
        for level in ("strict", "relaxed", "loose"):
            yield {"kind": "parse", "shipped": level, "via": "create", "cmul": [1, 1], "nmul": [1, 1]}
        yield {"kind": "parse", "shipped": "loose", "via": "create", "cmul": [3, 2], "nmul": [1, 2]}
        yield {"kind": "parse", "shipped": rng.choice(["strict", "relaxed", "loose"]), "via": "get_rules",
               "cmul": [1, 1], "nmul": [1, 1]}
        n_well = 2500 if deep else 300
        for i in range(n_well):
            case, _ = self.wellformed(rng)
            yield case
            yield from self.corruptions(rng, case, 10)
            if i % 4 == 0:
                yield from self.illformed(rng)
        yield from self.tokeniser_cases(rng, 3000 if deep else 600)
        if deep:
            # all single-token corruptions of a few small files
            done = 0
            while done < (12 if tier == "thorough" else 4):
                case, _ = self.wellformed(rng)
                if sum(len(t) for t in case["files"]) < 260:
                    done += 1
                    yield from self.corruptions(rng, case, None)
            yield from self.token_strings(rng, tier, deep)

    # ------------------------------------------------------------------ implementation adapter
    def _shipped(self) -> Tuple[List[str], List[str]]:
        if self._shipped_ctx is None:
            from antismash.detection import hmm_detection as hd
            from antismash.common.signature import get_signature_profiles
            sigs = set(hd.DYNAMIC_PROFILES) | {s.name for s in get_signature_profiles(hd.SIGNATURE_FILE)}
            self._shipped_ctx = (sorted(sigs), sorted(hd.CATEGORIES))
        return self._shipped_ctx

    def _rule_obs(self, rule: Any, sigs: Any, cats: Any) -> Dict[str, Any]:
        from antismash.common.hmm_rule_parser import rule_parser as rp
        text = rule.reconstruct_rule_text()
        try:
            again = rp.Parser(text, set(sigs), set(cats)).rules
            if len(again) != 1:
                re_obs: Dict[str, Any] = {"err": "count"}
            else:
                r2 = again[0]
                re_obs = {"name": r2.name, "cutoff": r2.cutoff, "neighbourhood": r2.neighbourhood,
                          "cond": common.cond_json(r2.conditions), "cond_str": str(r2.conditions)}
        except Exception as exc:  # pylint: disable=broad-except
            re_obs = {"err": self._kind(exc)}
        return {"name": rule.name, "category": rule.category, "cutoff": rule.cutoff,
                "neighbourhood": rule.neighbourhood, "cond": common.cond_json(rule.conditions),
                "cond_str": str(rule.conditions),
                "extenders": common.cond_json(rule.extenders) if rule.extenders is not None else None,
                "ext_str": str(rule.extenders) if rule.extenders is not None else None,
                "superiors": list(rule.superiors), "related": list(rule.related),
                "description": rule.description,
                "examples": [[e.database, e.accession, e.version, e.start, e.end, e.compound_name] for e in rule.examples],
                "text": text, "re": re_obs}

    @staticmethod
    def _kind(exc: BaseException) -> str:
        from antismash.common.hmm_rule_parser import rule_parser as rp
        if isinstance(exc, rp.RuleSyntaxError):
            return "syntax"
        if isinstance(exc, ValueError):
            return "value"
        if isinstance(exc, AttributeError):
            return "attr"
        if isinstance(exc, StopIteration):
            return "stop"
        return "other:" + type(exc).__name__

    def run_impl(self, case: Dict[str, Any]) -> Dict[str, Any]:
        from antismash.common.hmm_rule_parser import rule_parser as rp
        from antismash.common.hmm_rule_parser.cluster_prediction import create_rules
        from antismash.common.hmm_rule_parser.structures import Multipliers
        if case["kind"] in ("tokens", "layout"):
            try:
                toks = rp.Tokeniser(case["text"]).tokens
            except Exception as exc:  # pylint: disable=broad-except
                return {"err_tok": self._kind(exc)}
            return {"tokens": [[t.token_text, t.type.name] for t in toks]}
        if case["kind"] == "rulesets":
            return self._run_rulesets(case)
        if case["kind"] == "from_files":
            return self._run_from_files(case)
        if case["kind"] == "continuations":
            return self._run_continuations(case)
        if case["kind"] == "levels":
            from antismash.detection import hmm_detection as hd
            files: List[Any] = []
            names: List[Any] = []
            for level in case["ask"]:
                try:
                    files.append([os.path.basename(path) for path in hd._get_rule_files_for_strictness(level)])  # pylint: disable=protected-access
                    names.append([rule.name for rule in hd._get_rules(level)])  # pylint: disable=protected-access
                except AssertionError:      # the function's own `assert strictness in _STRICTNESS_LEVELS`
                    files.append(None)
                    names.append(None)
                except Exception as exc:  # pylint: disable=broad-except
                    return {"err": self._kind(exc)}
            return {"files": files, "names": names}
        mult = Multipliers(case["cmul"][0] / case["cmul"][1], case["nmul"][0] / case["nmul"][1])
        old = signal.signal(signal.SIGALRM, _alarm)
        signal.setitimer(signal.ITIMER_REAL, 10.0)
        try:
            if "shipped" in case:
                from antismash.detection import hmm_detection as hd
                sigs, cats = self._shipped()
                if case.get("via") == "get_rules":
                    # the module's own chaining of Parser instances (used to validate --limit-to-rule-names)
                    rules = hd._get_rules(case["shipped"])  # pylint: disable=protected-access
                else:
                    paths = hd._get_rule_files_for_strictness(case["shipped"])  # pylint: disable=protected-access
                    rules = create_rules(paths, set(sigs), set(cats), mult)
            else:
                sigs, cats = case["sigs"], case["cats"]
                if case.get("via") == "parser" and len(case["files"]) == 1:
                    rules = rp.Parser(case["files"][0], set(sigs), set(cats), multipliers=mult).rules
                else:
                    if self._tmp is None:
                        self._tmp = tempfile.mkdtemp(prefix="asv_c02_")
                        atexit.register(shutil.rmtree, self._tmp, ignore_errors=True)
                    paths = []
                    for i, text in enumerate(case["files"]):
                        path = os.path.join(self._tmp, f"f{i}.txt")
                        with open(path, "w", encoding="utf-8", newline="") as handle:
                            handle.write(text)
                        paths.append(path)
                    rules = create_rules(paths, set(sigs), set(cats), mult)
            signal.setitimer(signal.ITIMER_REAL, 60.0)
            return {"rules": [self._rule_obs(r, sigs, cats) for r in rules]}
        except Timeout:
            return {"err": "other:timeout"}
        except RecursionError:
            return {"err": "other:RecursionError"}
        except Exception as exc:  # pylint: disable=broad-except
            return {"err": self._kind(exc), "msg": str(exc)[:160]}
        finally:
            signal.setitimer(signal.ITIMER_REAL, 0)
            signal.signal(signal.SIGALRM, old)

    @staticmethod
    def _rows(ruleset: Any) -> List[List[Any]]:
        return [[r.name, r.category, int(r.cutoff), int(r.neighbourhood)] for r in ruleset.rules]

    @staticmethod
    def _step_args(step: Dict[str, Any]) -> List[str]:
        args = ["--taxon", step["taxon"], "--hmmdetection-strictness", step["strictness"]]
        if step["cmul"] is not None:
            args += ["--hmmdetection-fungal-cutoff-multiplier", repr(step["cmul"])]
        if step["nmul"] is not None:
            args += ["--hmmdetection-fungal-neighbourhood-multiplier", repr(step["nmul"])]
        if step["names"]:
            args += ["--hmmdetection-limit-to-rule-names", ",".join(step["names"])]
        if step["cats"]:
            args += ["--hmmdetection-limit-to-rule-categories", ",".join(step["cats"])]
        return args

    def _run_rulesets(self, case: Dict[str, Any]) -> Dict[str, Any]:
        """one process, several get_ruleset() calls through the real option handling; every ruleset handed
        out is read when it is returned and again after the last request"""
        from antismash.config import build_config, destroy_config
        from antismash.detection import hmm_detection as hd
        hd._RULESETS.clear()  # pylint: disable=protected-access
        steps: List[Dict[str, Any]] = []
        handed: List[Any] = []
        reqs: List[Dict[str, Any]] = []
        try:
            for step in case["steps"]:
                destroy_config()
                options = build_config(self._step_args(step), modules=[hd])
                reqs.append({"strictness": options.hmmdetection_strictness,
                             "names": list(options.hmmdetection_limit_to_rules),
                             "cats": list(options.hmmdetection_limit_to_categories),
                             "fungi": options.taxon == "fungi",
                             "cmul": list(float(options.hmmdetection_fungal_cutoff_multiplier).as_integer_ratio()),
                             "nmul": list(float(options.hmmdetection_fungal_neighbourhood_multiplier).as_integer_ratio())})
                extra: Dict[str, Any] = {}
                if step.get("check"):
                    reqs[-1]["check"] = True
                    try:
                        extra["check"] = not hd.check_options(options)
                    except Exception as exc:  # pylint: disable=broad-except
                        extra["check"] = self._kind(exc)
                try:
                    ruleset = hd.get_ruleset(options)
                except Exception as exc:  # pylint: disable=broad-except
                    steps.append({"err": self._kind(exc), **extra})
                    handed.append(None)
                    continue
                steps.append({"rules": self._rows(ruleset), **extra})
                handed.append(ruleset)
            final = [self._rows(rs) if rs is not None else None for rs in handed]
        finally:
            destroy_config()
            hd._RULESETS.clear()  # pylint: disable=protected-access
        return {"steps": steps, "final": final, "reqs": reqs}

    @staticmethod
    def _cont_rows(rules: Any) -> List[List[Any]]:
        return [[r.name, r.category, int(r.cutoff), int(r.neighbourhood), list(r.superiors), str(r.conditions)] for r in rules]

    def _run_continuations(self, case: Dict[str, Any]) -> Dict[str, Any]:
        """several Parser(...) calls in one process; a step hands the very list object an earlier step returned as
        existing_rules; every list is read when it is returned and again after the last step"""
        from antismash.common.hmm_rule_parser import rule_parser as rp
        sigs, cats = set(case["sigs"]), set(case["cats"])
        lists: List[Any] = []
        steps: List[Any] = []
        old = signal.signal(signal.SIGALRM, _alarm)
        signal.setitimer(signal.ITIMER_REAL, 20.0)
        try:
            for step in case["steps"]:
                src = step["from"]
                if src is not None and lists[src] is None:
                    lists.append(None)
                    steps.append(None)
                    continue
                try:
                    if src is None:
                        rules = rp.Parser(step["text"], sigs, cats).rules
                    else:
                        rules = rp.Parser(step["text"], sigs, cats, existing_rules=lists[src]).rules
                except Timeout:
                    raise
                except Exception as exc:  # pylint: disable=broad-except
                    lists.append(None)
                    steps.append({"err": self._kind(exc)})
                    continue
                lists.append(rules)
                steps.append({"rules": self._cont_rows(rules)})
        except Timeout:
            return {"steps": steps, "final": [], "err": "other:timeout"}
        finally:
            signal.setitimer(signal.ITIMER_REAL, 0)
            signal.signal(signal.SIGALRM, old)
        return {"steps": steps, "final": [self._cont_rows(l) if l is not None else None for l in lists]}

    def _run_from_files(self, case: Dict[str, Any]) -> Dict[str, Any]:
        from antismash.common.hmm_rule_parser.cluster_prediction import Ruleset
        from antismash.common.hmm_rule_parser.structures import Multipliers
        from antismash.detection import hmm_detection as hd
        try:
            ruleset = Ruleset.from_files(hd.SIGNATURE_FILE, hd.HMM_FILE,
                                         hd._get_rule_files_for_strictness(case["strictness"]),  # pylint: disable=protected-access
                                         hd.CATEGORIES, hd.EQUIVALENCE_GROUPS, "rule-based-clusters",
                                         dynamic_profiles=hd.DYNAMIC_PROFILES,
                                         multipliers=Multipliers(case["cmul"], case["nmul"]))
        except Exception as exc:  # pylint: disable=broad-except
            return {"err": self._kind(exc)}
        return {"rules": self._rows(ruleset)}

    def driver_line(self, case: Dict[str, Any], obs: Dict[str, Any]) -> Optional[Dict[str, Any]]:
        if case["kind"] == "tokens":
            return {"kind": "tokens", "text": case["text"]}
        if case["kind"] == "levels":
            sigs, cats = self._shipped()
            return {"kind": "levels", "sigs": sigs, "cats": cats, "ask": case["ask"], "impl_names": obs.get("names", [])}
        if case["kind"] == "continuations":
            return {"kind": "continuations", "sigs": case["sigs"], "cats": case["cats"], "cmul": case["cmul"],
                    "nmul": case["nmul"], "steps": case["steps"]}
        if case["kind"] == "layout":
            return {"kind": "layout", "text": case["text"], "items": case["items"], "tail": case["tail"]}
        if case["kind"] == "rulesets":
            sigs, cats = self._shipped()
            return {"kind": "rulesets", "sigs": sigs, "cats": cats, "steps": obs["reqs"],
                    "impl_steps": obs["steps"], "impl_final": obs["final"]}
        if case["kind"] == "from_files":
            sigs, cats = self._shipped()
            return {"kind": "from_files", "sigs": sigs, "cats": cats, "strictness": case["strictness"],
                    "cmul": list(float(case["cmul"]).as_integer_ratio()),
                    "nmul": list(float(case["nmul"]).as_integer_ratio()), "impl_rules": obs.get("rules")}
        line = {"kind": "parse", "cmul": case["cmul"], "nmul": case["nmul"], "impl": obs.get("rules"),
                "expect": case.get("expect")}
        if "shipped" in case:
            sigs, cats = self._shipped()
            line.update(shipped=case["shipped"], sigs=sigs, cats=cats)
        else:
            line.update(files=case["files"], sigs=case["sigs"], cats=case["cats"])
        return line

    # ------------------------------------------------------------------ judge
    def judge(self, case: Dict[str, Any], obs: Dict[str, Any], drv: Optional[Dict[str, Any]]) -> Judgement:
        assert drv is not None
        if "err" in drv:
            return Judgement(False, True, detail=f"driver error {drv['err']}")
        if case["kind"] == "tokens":
            same = (obs.get("tokens") == drv.get("tokens") and obs.get("err_tok") == drv.get("err_tok"))
            return Judgement(same, True, nontrivial=bool(obs.get("tokens")) and len(obs["tokens"]) > 2,
                             tags=("tokeniser", "tok-error" if "err_tok" in obs else "tok-ok"),
                             detail="" if same else f"tokeniser: model {drv} vs implementation {obs}")
        if case["kind"] == "layout":
            if not drv.get("render_ok"):
                return Judgement(False, True, detail="layout: the harness text is not the spec's rendering of the items")
            same = (obs.get("tokens") == drv.get("tokens") and obs.get("err_tok") == drv.get("err_tok"))
            spec_ok = (not drv["scope"]) or obs.get("tokens") == drv["expect"]
            detail = ""
            if not spec_ok:
                detail = (f"layout: the text {case['text']!r} is the words {[it['w'] for it in case['items']]} written with "
                          f"whitespace/comments between them, but the tokeniser returned "
                          f"{[t[0] for t in obs['tokens']] if 'tokens' in obs else obs}")
            elif not same:
                detail = f"layout: model {drv.get('tokens', drv.get('err_tok'))} vs implementation {obs}"
            abut = any(it["gap"] and "c" in it["gap"][0] for it in case["items"][1:])
            return Judgement(same, spec_ok, in_scope=bool(drv["scope"]), nontrivial=len(case["items"]) >= 2 and abut,
                             tags=("layout", "abutting-comment" if abut else "layout-plain"), detail=detail)
        if case["kind"] == "levels":
            if "err" in obs:
                return Judgement(False, False, detail=f"levels: {obs['err']}")
            model, spec = drv["model"], drv["spec"]
            corr = model["files"] == obs["files"] and model["names"] == obs["names"]
            spec_ok = bool(spec["prefix_chain"]) and model["files"] == obs["files"]
            detail = ""
            if not spec["prefix_chain"]:
                detail = "the rules of a stricter level are not the first rules of the next looser level"
            elif model["files"] != obs["files"]:
                detail = f"_get_rule_files_for_strictness: {obs['files']} but the levels up to the requested one are {model['files']}"
            elif not corr:
                detail = "levels: rule names of the model and of _get_rules differ"
            return Judgement(corr, spec_ok, nontrivial=True, tags=("levels",), detail=detail)
        if case["kind"] == "continuations":
            model, spec = drv["model"], drv["spec"]
            corr = model["steps"] == obs["steps"] and model["final"] == obs["final"]
            spec_ok, detail = True, ""
            for i, (got, want) in enumerate(zip(obs["steps"], spec["steps"])):
                if got is not None and want is not None and got != want:
                    spec_ok = False
                    src = case["steps"][i]["from"]
                    detail = (f"parse {i + 1} (text {case['steps'][i]['text']!r} after the rules returned by parse "
                              f"{None if src is None else src + 1}) gave {self._brief(got)}, but that text after those rules "
                              f"gives {self._brief(want)}: the outcome depends on what other parses did with the same list")
                    break
            if spec_ok:
                for i, (then, now) in enumerate(zip(obs["steps"], obs["final"])):
                    if then is not None and "rules" in then and now != then["rules"]:
                        spec_ok = False
                        detail = (f"the rule list returned by parse {i + 1} changed after later parses: was "
                                  f"{[r[0] for r in then['rules']]}, now {[r[0] for r in (now or [])]}")
                        break
            if obs.get("err"):
                spec_ok, detail = False, "continuations: " + obs["err"]
            if not corr and not detail:
                detail = f"continuations: model {str(model)[:300]} vs implementation {str(obs)[:300]}"
            branching = len({s["from"] for s in case["steps"][1:]}) < len(case["steps"][1:])
            return Judgement(corr, spec_ok, nontrivial=branching and len(case["steps"]) >= 3,
                             tags=("continuations", "branching" if branching else "chain"), detail=detail)
        if case["kind"] == "rulesets":
            return self._judge_rulesets(case, obs, drv)
        if case["kind"] == "from_files":
            model, spec = drv["model"], drv["spec"]
            corr = model.get("rules") == obs.get("rules") and model.get("err") == obs.get("err")
            spec_ok = spec["ok"] is not False
            known = None
            if not spec_ok and (case["cmul"] != 1.0 or case["nmul"] != 1.0):
                known = "KF-C02-from-files-scales-twice"
            detail = "" if spec_ok and corr else (
                "Ruleset.from_files: distances are not the parsed ones scaled once by the multipliers, e.g. "
                + str((obs.get("rules") or [None])[0]) + " for multipliers " + str((case["cmul"], case["nmul"])))
            return Judgement(corr, spec_ok, known=known, nontrivial=case["cmul"] != 1.0 or case["nmul"] != 1.0,
                             tags=("from_files",), detail=detail)
        model, spec = drv["model"], drv["spec"]
        tags: List[str] = ["shipped" if "shipped" in case else "small-scope" if case.get("small") else
                           "corrupted:" + case["corrupt"] if "corrupt" in case else
                           "ill-formed" if "expect_error" in case else "well-formed"]
        detail = ""
        if "err" in obs:
            corr = model.get("err") == obs["err"]
            tags.append("rejected:" + obs["err"])
            if not corr:
                detail = f"implementation raised {obs['err']} ({obs.get('msg', '')}), model gives " + \
                    (model.get("err") or f"{len(model['rules'])} rules")
        else:
            tags.append("accepted")
            corr = "rules" in model and model["rules"] == obs["rules"]
            if not corr:
                if "err" in model:
                    detail = f"implementation accepts ({[r['name'] for r in obs['rules']]}), model raises {model['err']}"
                else:
                    detail = "rules differ: " + self._first_diff(model["rules"], obs["rules"])
        spec_ok = True
        if "rules" in obs:
            if not spec.get("rules_ok", True):
                spec_ok = False
                detail = (f"accepted rule set is not well-formed: names_distinct={spec['names_distinct']} "
                          f"sup_closed={spec['sup_closed']} rule_ok={spec['rule_ok']}; ") + detail
            bad = [(r["name"], v) for r, v in zip(obs["rules"], spec.get("reparse", [])) if v not in ("ok", None)]
            if bad:
                spec_ok = False
                detail = f"regenerated text does not parse back to the same rule: {bad[:3]}; " + detail
            if case.get("expect") is not None:
                if not spec.get("expect_ok", True):
                    return Judgement(False, True, detail="generator produced an ill-formed tree: " + str(case["expect"])[:300])
                if spec.get("expect") is not None:
                    spec_ok = False
                    detail = f"not the rule the grammar denotes: {spec['expect']}; " + detail
            if "expect_error" in case:
                spec_ok = False
                detail = f"ill-formed input ({case['expect_error']}) was accepted; " + detail
            if spec.get("sup_lists_distinct") is False:
                spec_ok = False
                detail = ("a text whose SUPERIORS list names a rule twice was accepted (Lean spec `supListsDistinct` on "
                          "the tokens of the text); ") + detail
        else:
            if case.get("expect") is not None or "shipped" in case:
                spec_ok = False
                detail = f"well-formed input rejected with {obs['err']}: {obs.get('msg', '')}; " + detail
            if obs["err"].startswith("other:"):
                spec_ok = False
                detail = f"not rejected with an error but {obs['err']}; " + detail
        if "expect_error" in case:
            tags.append("class:" + case["expect_error"])
        if case.get("aliases"):
            tags.append("aliases")
        if len(case.get("files", [])) > 1:
            tags.append("multi-file")
        depth = max((common.cond_depth(r["cond"]) for r in obs.get("rules", [])), default=0)
        if "expect" in case and case["expect"]:
            depth = max(depth, max(tree_depth(s["conds"]) for s in case["expect"]))
            tags.append(f"depth{min(depth, 7)}")
        nontrivial = (depth >= 2 and "rules" in obs) or "corrupt" in case or "expect_error" in case
        return Judgement(corr, spec_ok, in_scope=True, nontrivial=nontrivial, tags=tuple(tags), detail=detail)

    def _judge_rulesets(self, case: Dict[str, Any], obs: Dict[str, Any], drv: Dict[str, Any]) -> Judgement:
        model, spec = drv["model"], drv["spec"]
        corr = model["steps"] == obs["steps"] and model["final"] == obs["final"]
        detail = ""
        spec_ok = True
        for i, (step, ok) in enumerate(zip(case["steps"], spec["steps"])):
            if ok is False:
                spec_ok = False
                rows = obs["steps"][i].get("rules") or []
                detail = (f"get_ruleset call {i + 1} of {len(case['steps'])} ({self._step_args(step)}): the ruleset is not "
                          f"the rules of the strictness restricted as asked with distances scaled once by this "
                          f"request's multipliers; it holds {len(rows)} rules, first {rows[:1]}")
                break
        if spec_ok:
            for i, ok in enumerate(spec["final"]):
                if ok is False:
                    spec_ok = False
                    detail = (f"the ruleset handed out by call {i + 1} ({self._step_args(case['steps'][i])}) no longer "
                              f"holds its scaled distances after the later calls: first rule now {(obs['final'][i] or [None])[:1]}, "
                              f"was {obs['steps'][i].get('rules', [None])[:1]}")
                    break
        if spec_ok:
            for i, ok in enumerate(spec.get("checks", [])):
                if ok is False:
                    spec_ok = False
                    detail = (f"check_options at call {i + 1} ({self._step_args(case['steps'][i])}) "
                              f"{'reported no issue for' if obs['steps'][i].get('check') else 'refused'} options that are "
                              f"{'not ' if obs['steps'][i].get('check') else ''}fine (positive multipliers, known rule names and categories)")
                    break
        if not corr and not detail:
            detail = "rulesets: model and implementation differ"
        errs = [s["err"] for s in obs["steps"] if "err" in s]
        if any(e.startswith("other:") for e in errs):
            spec_ok = False
            detail = f"get_ruleset raised {errs}; " + detail
        tags = ["rulesets", f"steps{len(case['steps'])}"] + (["ruleset-error"] if errs else [])
        nontrivial = sum(1 for r in obs["reqs"] if r["fungi"] and (r["cmul"] != [1, 1] or r["nmul"] != [1, 1])) >= 1 \
            and len(case["steps"]) >= 2
        return Judgement(corr, spec_ok, nontrivial=nontrivial, tags=tuple(tags), detail=detail)

    @staticmethod
    def _brief(out: Dict[str, Any]) -> str:
        return f"error {out['err']}" if "err" in out else f"rules {[(r[0], r[4]) for r in out['rules']]}"

    @staticmethod
    def _first_diff(model: List[Dict[str, Any]], impl: List[Dict[str, Any]]) -> str:
        if len(model) != len(impl):
            return f"{len(model)} rules in the model, {len(impl)} in the implementation"
        for m, i in zip(model, impl):
            for key in i:
                if m.get(key) != i[key]:
                    return f"rule {i['name']} field {key}: model {str(m.get(key))[:300]} vs implementation {str(i[key])[:300]}"
        return "?"

    def key(self, case: Dict[str, Any]) -> str:
        import hashlib
        import json
        c = {k: case.get(k) for k in ("kind", "files", "text", "shipped", "cmul", "nmul", "steps", "strictness", "via", "items", "tail", "ask")}
        return hashlib.md5(json.dumps(c, sort_keys=True).encode()).hexdigest()

    # ------------------------------------------------------------------ shrinking
    def shrink(self, case: Dict[str, Any]) -> Iterator[Dict[str, Any]]:
        if case["kind"] == "tokens":
            text = case["text"]
            for i in range(len(text)):
                yield dict(case, text=text[:i] + text[i + 1:])
            return
        if case["kind"] == "continuations":
            steps = case["steps"]
            for i in range(len(steps) - 1, 0, -1):
                if not any(s["from"] == i for s in steps):     # drop a step nobody continues from
                    new = [dict(s, **{"from": s["from"] - 1 if s["from"] is not None and s["from"] > i else s["from"]})
                           for k, s in enumerate(steps) if k != i]
                    yield dict(case, steps=new)
            return
        if case["kind"] == "layout":
            items, tail = case["items"], case["tail"]
            def again(its: List[Dict[str, Any]], tl: Dict[str, Any]) -> Dict[str, Any]:
                return {"kind": "layout", "items": its, "tail": tl, "text": self.layout_text(its, tl)}
            for i in range(len(items)):
                if len(items) > 1:
                    yield again(items[:i] + items[i + 1:], tail)
            if tail["gap"] or tail.get("open") is not None:
                yield again(items, {"gap": [], "open": None})
            for i, it in enumerate(items):
                for g in range(len(it["gap"])):
                    yield again(items[:i] + [dict(it, gap=it["gap"][:g] + it["gap"][g + 1:])] + items[i + 1:], tail)
                for g, f in enumerate(it["gap"]):
                    if f.get("c"):
                        yield again(items[:i] + [dict(it, gap=it["gap"][:g] + [{"c": ""}] + it["gap"][g + 1:])] + items[i + 1:], tail)
            return
        if case["kind"] == "rulesets":
            steps = case["steps"]
            for i in range(len(steps)):
                if len(steps) > 1:
                    yield dict(case, steps=steps[:i] + steps[i + 1:])
            for i, step in enumerate(steps):
                for key, val in (("names", []), ("cats", []), ("cmul", None), ("nmul", None)):
                    if step[key] != val:
                        yield dict(case, steps=steps[:i] + [dict(step, **{key: val})] + steps[i + 1:])
            return
        if "files" not in case:
            return
        # the oracle annotations describe the unshrunk text only
        base = {k: v for k, v in case.items() if k not in ("expect", "aliases", "expect_error")}
        files = case["files"]
        if len(files) > 1:
            for i in range(len(files)):
                yield dict(base, files=files[:i] + files[i + 1:])
            yield dict(base, files=["\n".join(files)])
        if case["cmul"] != [1, 1] or case["nmul"] != [1, 1]:
            yield dict(base, cmul=[1, 1], nmul=[1, 1])
        for f, text in enumerate(files):
            pairs = lex(text)
            starts = [i for i, (_, tok) in enumerate(pairs) if tok in ("RULE", "DEFINE")] + [len(pairs)]
            for lo, hi in zip(starts, starts[1:]):
                yield dict(base, files=files[:f] + [unlex(pairs[:lo] + pairs[hi:])] + files[f + 1:])
            for width in (4, 2, 1):
                for i in range(0, len(pairs) - width + 1):
                    yield dict(base, files=files[:f] + [unlex(pairs[:i] + pairs[i + width:])] + files[f + 1:])
            plain = unlex([(" " if i else "", tok) for i, (_, tok) in enumerate(pairs)])
            if plain != text:
                yield dict(base, files=files[:f] + [plain] + files[f + 1:])


PROP = C02
