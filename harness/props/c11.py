"""C11 — reusing saved module results reproduces the original results.

Implementation under test: the real `to_json` / `from_json` / `regenerate_previous_results` of
  HMMResult, Component/Module/CDSResult/NRPSPKSDomains (objects built by the real
  `generate_domains` with the hmmscan calls stubbed), CDSResults/RuleDetectionResults/
  HMMDetectionResults, the sideloader annotations, HmmerHit/HmmerResults (+ full_hmmer /
  cluster_hmmer regeneration, `refilter`), TTAResults (+ the real `detect`), and `main.run_module`.

Per case: original object → to_json → orjson.dumps → (optional change of one setting / one patch
of the stored JSON) → orjson.loads → from_json / regenerate against a fresh copy of the record →
to_json, three cycles; features the originals and the regenerated results add to fresh record
copies.  The Lean model decodes the very JSON the implementation wrote and must agree on the
decision (reuse / discard / refuse:<error>) and on the JSON the regenerated object writes.
"""
from __future__ import annotations

import contextlib
import copy
import logging
import random
from decimal import Decimal
from types import SimpleNamespace
from typing import Any, Dict, Iterator, List, Optional, Tuple

from ..framework import Failure, Judgement, Property, err_kind

_CFG: Dict[str, Any] = {}


# ----------------------------------------------------------------------------- wire form

def dec_of(x: float) -> List[int]:
    """exact decimal of the shortest repr, normalised: [mant, exp]"""
    d = Decimal(repr(float(x)))
    if d.is_zero():
        return [0, 0]
    sign, digits, exp = d.as_tuple()
    mant = int("".join(map(str, digits)))
    while mant % 10 == 0:
        mant //= 10
        exp += 1
    return [-mant if sign else mant, int(exp)]


def to_wire(obj: Any) -> Any:
    if obj is None or isinstance(obj, (bool, str)):
        return obj
    if isinstance(obj, int):
        return obj
    if isinstance(obj, float):
        return {"f": dec_of(obj)}
    if isinstance(obj, (list, tuple)):
        return [to_wire(x) for x in obj]
    if isinstance(obj, dict):
        return {"o": [[str(k), to_wire(v)] for k, v in obj.items()]}
    raise TypeError(type(obj))


def outcome_of(exc: Optional[BaseException]) -> str:
    if exc is None:
        return "reuse"
    kind = err_kind(exc)
    if kind.startswith("value-error:"):      # subclasses (IncompatibleComponentError, …) are ValueErrors
        kind = "value-error"
    return "refuse:" + kind


@contextlib.contextmanager
def quiet() -> Iterator[None]:
    prev = logging.root.manager.disable
    logging.disable(logging.CRITICAL)
    try:
        yield
    finally:
        logging.disable(prev)


def config(**changes: Any) -> Any:
    """the antismash config singleton, built once; `changes` are applied on top of the defaults"""
    from antismash.config import build_config, get_config, update_config
    if "base" not in _CFG:
        from antismash.main import get_all_modules
        build_config([], isolated=True, modules=get_all_modules())
        base = get_config()
        _CFG["base"] = {k: getattr(base, k) for k in (
            "hmmdetection_strictness", "hmmdetection_limit_to_rules", "hmmdetection_limit_to_categories",
            "hmmdetection_fungal_cutoff_multiplier", "hmmdetection_fungal_neighbourhood_multiplier",
            "taxon", "tta_threshold")}
    new = dict(_CFG["base"])
    new.update(changes)
    update_config(new)
    return get_config()


def feature_obs(record: Any) -> List[Any]:
    """every feature of the record as (type, location text, qualifiers), canonicalised"""
    out = []
    for feat in list(record.all_features):
        for bio in feat.to_biopython():
            quals = sorted((k, v if isinstance(v, str) else [str(x) for x in (v or [])])
                           for k, v in bio.qualifiers.items())
            out.append([bio.type, str(bio.location), quals])
    return sorted(out, key=repr)


def loc_obs(location: Any) -> Dict[str, Any]:
    from . import common
    return common.location_json(location)


def fl(s: Any) -> float:
    return float(s)


def renamed(record: Any, saved_id: str) -> Any:
    """a record whose id differs from the saved one is the renamed duplicate: pre-processing gave it a new id
       and kept the shared identifier as its original id"""
    if record.id != saved_id:
        record.original_id = saved_id
    return record


# ----------------------------------------------------------------------------- generators

NRPS_NAMES = ["Condensation_LCL", "Condensation_DCL", "Condensation_Starter", "AMP-binding", "A-OX", "PCP", "PP-binding",
              "Epimerization", "Thioesterase", "TD", "PKS_KS", "PKS_AT", "PKS_DH", "PKS_KR", "PKS_ER", "ACP",
              "PKS_PP", "cMT", "nMT", "oMT", "CAL_domain", "SAT", "NRPS-COM_Nterm", "PKS_Docking_Cterm",
              "Trans-AT_docking", "TIGR01720", "ECH", "PT", "Heterocyclization", "LPG_synthase_C",
              "Beta_elim_lyase", "ACP_beta", "Cglyc", "X", "Aminotran_1_2", "Polyketide_cyc"]
SUBTYPES = ["Trans-AT-KS", "Iterative-KS", "Modular-KS", "Enediyne-KS", "Hybrid-KS"]
CLADES = ["Clade_1", "Clade_22", "ST", "bOH"]
FLOATS_E = ["1e-20", "3.2e-07", "0.0", "1.5e-100", "0.01", "1e-05", "2.5e-300", "7.1e-12", "0.25"]
FLOATS_B = ["50.5", "20.0", "12.5", "8.1", "300.0", "1234.5", "0.1", "77.7", "15.0"]
PROFILES = ["PKS_KS", "PKS_AT", "AMP-binding", "Condensation", "PP-binding", "t2ks", "t2clf", "Chal_sti_synt_C",
            "LANC_like", "Lant_dehydr_N", "TIGR03731", "strH_like", "neoL_like", "DOIS", "valA_like", "salQ"]
HIT_RECIPES = [["PKS_KS", "PKS_AT"], ["Condensation", "AMP-binding", "PP-binding"], ["PKS_KS"], ["AMP-binding"],
               ["Chal_sti_synt_C", "Chal_sti_synt_N"], ["LANC_like", "Lant_dehydr_C", "Lant_dehydr_N"], ["PP-binding"],
               [], [], ["PKS_AT", "PKS_KS", "Condensation", "AMP-binding"], ["t2ks", "t2clf"], ["strH_like"]]
PRODUCTS = ["T1PKS", "NRPS", "T2PKS", "lanthipeptide-class-i", "amglyccycl", "hglE-KS", "NRPS-like", "prod_A"]


def gen_hit(rng: random.Random, name: str, lo: int, hi: int, depth: int) -> List[Any]:
    kids: List[Any] = []
    if depth > 0 and hi - lo >= 8 and rng.random() < 0.6:
        for _ in range(rng.choice([1, 1, 1, 2, 3])):
            a = rng.randrange(lo, hi - 2)
            b = rng.randrange(a + 1, hi + 1)
            # co-located but not necessarily contained
            if rng.random() < 0.2:
                a = max(0, a - rng.randrange(0, 5))
                b = b + rng.randrange(0, 5)
            kids.append(gen_hit(rng, rng.choice(SUBTYPES if depth == 2 else CLADES), a, b, depth - 1))
    return [name, lo, hi, rng.choice(FLOATS_E), rng.choice(FLOATS_B), kids]


def gen_domain_string(rng: random.Random) -> List[str]:
    r = rng.random()
    if r < 0.25:
        base = rng.choice([["Condensation_LCL", "AMP-binding", "PCP"], ["PKS_KS", "PKS_AT", "PKS_KR", "ACP"],
                           ["PKS_KS", "ACP", "PKS_KR"], ["AMP-binding", "PCP", "Thioesterase"],
                           ["PKS_KS", "PKS_AT", "ACP", "ACP", "LPG_synthase_C", "Beta_elim_lyase"],
                           ["CAL_domain", "PCP"], ["PKS_KS", "Trans-AT_docking", "PKS_DH", "ACP", "PKS_KR"]])
        out = []
        for _ in range(rng.choice([1, 1, 2, 3])):
            out += base if rng.random() < 0.7 else rng.choice([["PKS_KS", "PKS_AT"], ["ACP", "Thioesterase"],
                                                              ["PKS_KR", "ACP"], ["AMP-binding"], ["PCP", "Epimerization"]])
        return out
    return [rng.choice(NRPS_NAMES) for _ in range(rng.choice([1, 2, 3, 4, 5, 6, 8]))]


# ----------------------------------------------------------------------------- the property

class C11(Property):
    ID = "C11"
    USES_TABLES = True     # the driver re-adds module components with C14's model over the regenerated tables
    SHAPE = [
        ("antismash/common/hmmscan_refinement.py", "HMMResult.__init__"),
        ("antismash/common/hmmscan_refinement.py", "HMMResult.add_internal_hits"),
        ("antismash/common/hmmscan_refinement.py", "HMMResult.overlaps_with"),
        ("antismash/common/hmmscan_refinement.py", "HMMResult.to_json"),
        ("antismash/common/hmmscan_refinement.py", "HMMResult.from_json"),
        ("antismash/detection/nrps_pks_domains/module_identification.py", "Component.__init__"),
        ("antismash/detection/nrps_pks_domains/module_identification.py", "Component.to_json"),
        ("antismash/detection/nrps_pks_domains/module_identification.py", "Component.from_json"),
        ("antismash/detection/nrps_pks_domains/module_identification.py", "Module.to_json"),
        ("antismash/detection/nrps_pks_domains/module_identification.py", "Module.from_json"),
        ("antismash/detection/nrps_pks_domains/domain_identification.py", "CDSResult.to_json"),
        ("antismash/detection/nrps_pks_domains/domain_identification.py", "CDSResult.from_json"),
        ("antismash/detection/nrps_pks_domains/domain_identification.py", "NRPSPKSDomains.to_json"),
        ("antismash/detection/nrps_pks_domains/domain_identification.py", "NRPSPKSDomains.from_json"),
        ("antismash/detection/nrps_pks_domains/domain_identification.py", "NRPSPKSDomains.schema_version"),
        ("antismash/common/secmet/qualifiers/secmet.py", "SecMetQualifier.Domain.to_json"),
        ("antismash/common/secmet/qualifiers/secmet.py", "SecMetQualifier.Domain.from_json"),
        ("antismash/common/hmm_rule_parser/cluster_prediction.py", "CDSResults.__init__"),
        ("antismash/common/hmm_rule_parser/cluster_prediction.py", "CDSResults.annotate"),
        ("antismash/common/hmm_rule_parser/cluster_prediction.py", "RuleDetectionResults.annotate_cds_features"),
        ("antismash/common/secmet/qualifiers/secmet.py", "SecMetQualifier.add_domains"),
        ("antismash/common/secmet/qualifiers/gene_functions.py", "GeneFunctionAnnotations.add"),
        ("antismash/common/hmm_rule_parser/cluster_prediction.py", "CDSResults.to_json"),
        ("antismash/common/hmm_rule_parser/cluster_prediction.py", "CDSResults.from_json"),
        ("antismash/common/hmm_rule_parser/cluster_prediction.py", "RuleDetectionResults.schema_version"),
        ("antismash/common/hmm_rule_parser/cluster_prediction.py", "RuleDetectionResults.to_json"),
        ("antismash/common/hmm_rule_parser/cluster_prediction.py", "RuleDetectionResults.from_json"),
        ("antismash/common/hmm_rule_parser/structures.py", "Multipliers.__post_init__"),
        ("antismash/common/serialiser.py", "feature_to_json"),
        ("antismash/common/serialiser.py", "feature_from_json"),
        ("antismash/common/secmet/features/protocluster.py", "Protocluster.__init__"),
        ("antismash/common/secmet/features/protocluster.py", "Protocluster.to_biopython"),
        ("antismash/common/secmet/features/protocluster.py", "Protocluster.from_biopython"),
        ("antismash/common/secmet/features/cdscollection.py", "CDSCollection.to_biopython"),
        ("antismash/common/secmet/features/cdscollection.py", "CDSCollection.from_biopython"),
        ("antismash/common/secmet/features/feature.py", "Feature.to_biopython"),
        ("antismash/common/secmet/features/feature.py", "Feature.from_biopython"),
        ("antismash/detection/hmm_detection/__init__.py", "HMMDetectionResults.schema_version"),
        ("antismash/detection/hmm_detection/__init__.py", "HMMDetectionResults.__init__"),
        ("antismash/detection/hmm_detection/__init__.py", "HMMDetectionResults.to_json"),
        ("antismash/detection/hmm_detection/__init__.py", "HMMDetectionResults.from_json"),
        ("antismash/detection/hmm_detection/__init__.py", "regenerate_previous_results"),
        ("antismash/detection/hmm_detection/__init__.py", "run_on_record"),
        ("antismash/detection/hmm_detection/__init__.py", "get_ruleset"),
        ("antismash/detection/hmm_detection/__init__.py", "_get_rules"),
        ("antismash/detection/hmm_detection/__init__.py", "_get_rule_files_for_strictness"),
        ("antismash/common/hmm_rule_parser/cluster_prediction.py", "detect_protoclusters_and_signatures"),
        ("antismash/common/hmm_rule_parser/cluster_prediction.py", "build_results"),
        ("antismash/common/serialiser.py", "AntismashResults.SCHEMA_VERSION"),
        ("antismash/common/serialiser.py", "AntismashResults.COMPATIBLE_SCHEMAS"),
        ("antismash/common/serialiser.py", "AntismashResults.from_file"),
        ("antismash/common/serialiser.py", "AntismashResults.to_json"),
        ("antismash/common/serialiser.py", "AntismashResults.write_to_file"),
        ("antismash/common/serialiser.py", "dump_records"),
        ("antismash/main.py", "read_data"),
        ("antismash/detection/sideloader/data_structures.py", "_qualifier_mapping"),
        ("antismash/detection/sideloader/data_structures.py", "Tool.__post_init__"),
        ("antismash/detection/sideloader/data_structures.py", "Tool.to_json"),
        ("antismash/detection/sideloader/data_structures.py", "Tool.from_json"),
        ("antismash/detection/sideloader/data_structures.py", "SubRegionAnnotation.__init__"),
        ("antismash/detection/sideloader/data_structures.py", "SubRegionAnnotation.build_location"),
        ("antismash/detection/sideloader/data_structures.py", "SubRegionAnnotation.to_json"),
        ("antismash/detection/sideloader/data_structures.py", "SubRegionAnnotation.from_json"),
        ("antismash/detection/sideloader/data_structures.py", "ProtoclusterAnnotation.__init__"),
        ("antismash/detection/sideloader/data_structures.py", "ProtoclusterAnnotation.start"),
        ("antismash/detection/sideloader/data_structures.py", "ProtoclusterAnnotation.end"),
        ("antismash/detection/sideloader/data_structures.py", "ProtoclusterAnnotation.to_json"),
        ("antismash/detection/sideloader/data_structures.py", "ProtoclusterAnnotation.build_core_location"),
        ("antismash/detection/sideloader/data_structures.py", "ProtoclusterAnnotation.build_location"),
        ("antismash/detection/sideloader/data_structures.py", "ProtoclusterAnnotation.from_json"),
        ("antismash/detection/sideloader/data_structures.py", "SideloadedResults.schema_version"),
        ("antismash/detection/sideloader/data_structures.py", "SideloadedResults.to_json"),
        ("antismash/detection/sideloader/data_structures.py", "SideloadedResults.from_json"),
        ("antismash/detection/sideloader/__init__.py", "regenerate_previous_results"),
        ("antismash/detection/sideloader/__init__.py", "is_enabled"),
        ("antismash/detection/sideloader/__init__.py", "run_on_record"),
        ("antismash/detection/sideloader/general.py", "load_single_record_annotations"),
        ("antismash/detection/sideloader/data_structures.py", "SubRegionAnnotation.from_schema_json"),
        ("antismash/detection/sideloader/data_structures.py", "ProtoclusterAnnotation.from_schema_json"),
        ("antismash/detection/sideloader/loader.py", "load_validated_json"),
        ("antismash/common/secmet/record.py", "Record.has_name"),
        ("antismash/common/secmet/qualifiers/gene_functions.py", "GeneFunctionAnnotations.clear"),
        ("antismash/common/secmet/features/cds_feature.py", "CDSFeature.strip_antismash_annotations"),
        ("antismash/common/secmet/record.py", "Record.strip_antismash_annotations"),
        ("antismash/common/serialiser.py", "record_to_json"),
        ("antismash/common/serialiser.py", "record_from_json"),
        ("antismash/detection/full_hmmer/__init__.py", "run_on_record"),
        ("antismash/detection/cluster_hmmer/__init__.py", "run_on_record"),
        ("antismash/common/pfamdb.py", "get_db_version_from_path"),
        ("antismash/common/pfamdb.py", "find_latest_database_version"),
        ("antismash/common/path.py", "find_latest_database_version"),
        ("antismash/common/hmmer.py", "HmmerHit.__post_init__"),
        ("antismash/common/hmmer.py", "HmmerHit.to_json"),
        ("antismash/common/hmmer.py", "HmmerHit.from_json"),
        ("antismash/common/hmmer.py", "HmmerResults.schema_version"),
        ("antismash/common/hmmer.py", "HmmerResults.__init__"),
        ("antismash/common/hmmer.py", "HmmerResults.to_json"),
        ("antismash/common/hmmer.py", "HmmerResults.from_json"),
        ("antismash/common/hmmer.py", "HmmerResults.refilter"),
        ("antismash/common/hmmer.py", "HmmerResults.add_to_record"),
        ("antismash/detection/nrps_pks_domains/domain_identification.py", "generate_domain_features"),
        ("antismash/detection/nrps_pks_domains/domain_identification.py", "CDSResult.annotate_domains"),
        ("antismash/detection/nrps_pks_domains/__init__.py", "regenerate_previous_results"),
        ("antismash/detection/full_hmmer/__init__.py", "regenerate_previous_results"),
        ("antismash/detection/cluster_hmmer/__init__.py", "regenerate_previous_results"),
        ("antismash/modules/tta/tta.py", "TTAResults.schema_version"),
        ("antismash/modules/tta/tta.py", "TTAResults.__init__"),
        ("antismash/modules/tta/tta.py", "TTAResults.new_feature_from_location"),
        ("antismash/modules/tta/tta.py", "TTAResults.to_json"),
        ("antismash/modules/tta/tta.py", "TTAResults.from_json"),
        ("antismash/modules/tta/tta.py", "TTAResults.add_to_record"),
        ("antismash/modules/tta/tta.py", "detect"),
        ("antismash/modules/tta/__init__.py", "regenerate_previous_results"),
        ("antismash/modules/tta/__init__.py", "run_on_record"),
        ("antismash/main.py", "run_module"),
    ]
    RULE = ("generated non-empty results objects of every modelled class: HMM hits with up to two levels of "
            "co-located internal hits; NRPS/PKS results built by the real generate_domains (hmmscan stubbed) from "
            "random and module-shaped domain strings over 1-4 genes on both strands incl. cross-gene modules; "
            "rule-detection results with 1-3 protoclusters (line and origin-spanning), genes shared between "
            "protoclusters, 1-4 definition domains per product; sideloaded sub-regions/protoclusters on linear and "
            "circular records incl. wrapping areas; HMMer hit lists around both thresholds; TTA records with GC "
            "content at / around the thresholds and threshold histories of 3 steps; run_module decision table. "
            "sideloader driven by its own options through the real loader and real JSON files (files, --sideload-simple, "
            "--sideload-by-cds, --sideload-size-by-cds; each changed alone between the saving and the reusing run); "
            "full_hmmer/cluster_hmmer run_on_record under every combination of the two pfam-version options, stored and "
            "installed versions. Each: to_json -> orjson dumps/loads -> from_json/regenerate -> to_json, 3 cycles, features added to "
            "fresh record copies; ~45% of cases change exactly one setting or patch one stored field (schema "
            "number, record id, strictness, rule subset, fungal multipliers, thresholds, topology, dropped optional "
            "key, displaced internal hit, unknown gene/profile). non-trivial = stored object non-empty and "
            "regeneration attempted; distinct by canonical case")
    TRUSTED = [
        "orjson (dict order preserved, shortest round-trip float text); Python float <-> exact decimal of its repr",
        "Module.from_json re-adds components through add_component: `ModRules.accepts`, instantiated in the driver "
        "and in the `…_built/_combined/_generated` theorems with C14's model (`c14Rules`, regenerated tables); "
        "patched module JSON (extra starter, duplicate loader, reversed components) checks the refusals",
        "text forms inside qualifiers / TTA codons: str(location)/location_from_string is proved (C04.string_roundtrip) "
        "for exact positions; fuzzy positions (<5, >9) are not generated",
        "JSON values of an unexpected type, NaN/inf scores, extra qualifiers on protoclusters, T2PKS qualifiers and "
        "sideloaded protoclusters inside rule results are outside the modelled domain and not generated",
        "the rule names of an option set are computed in the model (rulesetNames) from the rule files' content as read by "
        "hmm_detection._get_rules (name, first strictness level, category) and compared with get_ruleset(options); "
        "results of records with genes are produced by the real run_on_record with only hmmsearch replaced by the case's hits",
        "sideload annotation files are parsed by the model (SideOpts.loadFiles: tool, records matching the record's "
        "identifiers, from_schema_json); jsonschema validation itself and its inserted defaults are exercised, not modelled; "
        "'latest' pfam version: chosen by the model (latestVersion) from the installed directories, digit components only",
        "results file: the record body (record_to_json / record_from_json) is opaque in the model (C10); identical HMM hits "
        "inside one gene (one dictionary key in generate_domain_features) are not generated",
        "results classes of modules that need external binaries (clusterblast, …) are not modelled",
    ]

    # ------------------------------------------------------------------ case generation
    def cases(self, rng: random.Random, tier: str, deep: bool) -> Iterator[Dict[str, Any]]:
        scale = 6 if deep else 1
        plan = [("hmmresult", 500), ("nrpspks", 300), ("hmmdet", 220), ("sideload", 500), ("hmmer", 650),
                ("tta", 350), ("resfile", 250), ("sideopt", 400), ("runmod", 24)]
        for kind, n in plan:
            if kind == "runmod":
                yield from self.all_runmod()
                continue
            gen = getattr(self, "gen_" + kind)
            for _ in range(n * scale):
                yield gen(rng)
        if deep:
            yield from self.small_scope()

    MUT_RATE = 0.45

    def gen_hmmresult(self, rng: random.Random) -> Dict[str, Any]:
        lo = rng.randrange(0, 50)
        hit = gen_hit(rng, rng.choice(NRPS_NAMES), lo, lo + rng.choice([3, 10, 40, 200]), 2)
        mut = None
        if rng.random() < self.MUT_RATE:
            mut = rng.choice(["displace_kid", "drop_evalue", "drop_hit_id", "touching_kid", "drop_internal"])
        return {"kind": "hmmresult", "hit": hit, "mut": mut}

    def gen_nrpspks(self, rng: random.Random) -> Dict[str, Any]:
        ngenes = rng.choice([1, 2, 2, 3, 4])
        strand = rng.choice([1, -1])
        genes = []
        for g in range(ngenes):
            names = gen_domain_string(rng)
            pos = rng.randrange(0, 30)
            doms = []
            for n in names:
                ln = rng.choice([20, 40, 90])
                depth = 2 if n == "PKS_KS" else (1 if rng.random() < 0.1 else 0)
                doms.append(gen_hit(rng, n, pos, pos + ln, depth))
                pos += ln + rng.randrange(0, 15)
                if pos > 900:
                    break
            motifs = []
            for _ in range(rng.choice([0, 0, 1, 2])):
                a = rng.randrange(0, 900)
                motifs.append(gen_hit(rng, rng.choice(["NRPS-A_a3", "PKSI-KR_m1", "C1_dual_004-017"]), a, a + 20, 0))
            if rng.random() < 0.15:
                # a gene with abMotif hits only
                doms = []
                if not motifs:
                    motifs = [gen_hit(rng, "NRPS-A_a3", 100, 120, 0)]
            genes.append({"name": f"gene{g}", "strand": strand if rng.random() < 0.85 else -strand,
                          "domains": doms, "motifs": motifs})
        if rng.random() < 0.1:
            genes.append({"name": f"gene{ngenes}", "strand": 1, "domains": [], "motifs": []})
        if rng.random() < 0.6:
            # gene names that do not sort in their order along the record (nrpsB before nrpsA, …)
            pool = ["nrpsB", "nrpsA", "pksZ", "Pks1", "orf10", "orf9", "a_last", "M3", "zeta", "alpha"]
            for gene, name in zip(genes, rng.sample(pool, len(genes))):
                gene["name"] = name
        mut = None
        if rng.random() < self.MUT_RATE:
            mut = rng.choice(["schema:3", "schema:5", "schema:none", "schema:missing", "record_id", "unknown_cds",
                              "drop_first_in_cds", "displace_kid", "unknown_profile", "schema:str",
                              "second_starter", "duplicate_loader", "swap_components", "empty_locus"])
        return {"kind": "nrpspks", "record_id": rng.choice(["rec1", "NC_003888.3", "r"]), "genes": genes, "mut": mut}

    def gen_hmmdet(self, rng: random.Random) -> Dict[str, Any]:
        circular = rng.random() < 0.4
        ngenes = rng.choice([2, 3, 4, 6])
        genes = []
        pos = rng.randrange(100, 400)
        for g in range(ngenes):
            ln = 3 * rng.randrange(30, 120)
            genes.append({"name": f"cds{g}", "lo": pos, "hi": pos + ln, "strand": rng.choice([1, -1])})
            pos += ln + rng.randrange(10, 400)
        length = pos + rng.randrange(100, 1000)
        clusters = []
        for _ in range(rng.choice([0, 1, 1, 2, 3])):
            i = rng.randrange(ngenes)
            k = rng.randrange(i, ngenes)
            core = [genes[i]["lo"], genes[k]["hi"]]
            nbh = rng.choice([0, 50, 90])
            cutoff = rng.choice([0, 20, 1000, 20000])
            spanning = circular and rng.random() < 0.3
            cl = {"core": [core], "loc": [[max(0, core[0] - nbh), min(length, core[1] + nbh)]],
                  "product": rng.choice(PRODUCTS), "cutoff": cutoff, "nbh": nbh,
                  "rule": rng.choice(["a and b", "minimum(2, [a, b]) or cds(c and d)", "PKS_KS"]),
                  "category": rng.choice(["PKS", "NRPS", "other", "", "RiPP"]), "genes": list(range(i, k + 1))}
            if spanning:
                # surrounding location wraps over the origin; the core may too
                first = genes[0]
                tail_lo = genes[-1]["lo"]
                cl["loc"] = [[tail_lo - 5, length], [0, first["hi"] + 5]]
                if rng.random() < 0.5:
                    cl["core"] = [[tail_lo, length], [0, first["hi"]]]
                    cl["genes"] = [0, ngenes - 1]
                else:
                    cl["core"] = [[first["lo"], first["hi"]]]
                    cl["genes"] = [0]
            clusters.append(cl)
        cdsres = {}
        for g in range(ngenes):
            if rng.random() < 0.75:
                doms = []
                for p in rng.sample(PROFILES, rng.choice([1, 1, 2, 3, 5])):
                    doms.append([p, rng.choice(FLOATS_E), rng.choice(FLOATS_B), rng.choice([0, 1, 12, 250])])
                defs = {}
                for cl in clusters:
                    if g in cl["genes"] and rng.random() < 0.8:
                        names = [d[0] for d in doms]
                        defs[cl["product"]] = rng.sample(names, rng.randrange(0, len(names) + 1)) \
                            + (rng.sample(PROFILES, rng.choice([0, 0, 1, 2])))
                cdsres[f"cds{g}"] = {"domains": doms, "defs": defs}
        outside = [n for n in cdsres if rng.random() < (0.15 if clusters else 0.7)]
        saved = self.gen_opts(rng)
        cur = dict(saved)
        mut = None
        if rng.random() < self.MUT_RATE:
            mut = rng.choice(["schema_outer:1", "schema_outer:3", "schema_inner:3", "schema_inner:missing", "record_id",
                              "strictness", "strictness", "limit_rules", "cutoff_mult", "nbh_mult",
                              "drop_strictness", "bad_strictness", "unknown_cds", "empty_domains", "empty_json",
                              "drop_category", "bad_multiplier", "same_rules_other_strictness"])
            if mut == "strictness":
                cur["strictness"] = rng.choice([s for s in ("strict", "relaxed", "loose") if s != saved["strictness"]])
            elif mut == "limit_rules":
                cur["limit"] = rng.choice([["T1PKS"], ["NRPS", "T1PKS"], []]) if saved["limit"] else ["T1PKS"]
                if cur["limit"] == saved["limit"]:
                    cur["limit"] = ["NRPS"]
            elif mut == "cutoff_mult":
                cur["taxon"] = saved["taxon"]
                cur["cutoff"] = rng.choice(["2.0", "0.5", "1.25"])
                if cur["cutoff"] == saved["cutoff"]:
                    cur["cutoff"] = "3.0"
            elif mut == "nbh_mult":
                cur["nbh"] = rng.choice(["2.0", "0.5", "1.0"])
                if cur["nbh"] == saved["nbh"]:
                    cur["nbh"] = "3.0"
            elif mut == "same_rules_other_strictness":
                saved["limit"] = ["T1PKS"]
                cur["limit"] = ["T1PKS"]
                cur["strictness"] = rng.choice([s for s in ("strict", "relaxed", "loose") if s != saved["strictness"]])
        case = {"kind": "hmmdet", "record": {"id": rng.choice(["rec1", "NZ_X.1"]), "length": length, "circular": circular,
                                              "genes": genes},
                "clusters": clusters, "cdsres": cdsres, "outside": outside, "saved": saved, "cur": cur, "mut": mut,
                "tool": "rule-based-clusters", "via": "direct", "reload": rng.random() < 0.45}
        r = rng.random()
        if r < 0.45:
            # results written by the real run_on_record (hmmsearch stubbed with the hits below)
            case["via"] = "run"
            case["clusters"], case["cdsres"], case["outside"] = [], {}, []
            if r < 0.15:
                case["record"]["genes"] = []          # a record without genes: the early exit of detection
            else:
                scale = rng.choice([1, 1, 40])
                for g in genes:
                    g["lo"], g["hi"] = g["lo"] * scale, g["hi"] * scale
                case["record"]["length"] = length * scale
                case["record"]["circular"] = False
            case["hits"] = {g["name"]: [[p, rng.choice(FLOATS_B[:6]), rng.choice(FLOATS_E)]
                                        for p in rng.choice(HIT_RECIPES)] for g in case["record"]["genes"]}
            if case["record"]["genes"] and rng.random() < 0.5:
                # an already existing (e.g. sideloaded) subregion: its genes' hits are stored even without a protocluster
                gs = case["record"]["genes"]
                a = rng.randrange(len(gs))
                b = rng.randrange(a, len(gs))
                case["subregion"] = [max(0, gs[a]["lo"] - 5), gs[b]["hi"] + 5]
                if rng.random() < 0.6:
                    for g in gs:       # hits that satisfy no rule
                        case["hits"][g["name"]] = [[p, "20.0", "1e-05"] for p in rng.choice([["PP-binding"], ["strH_like"], ["PKS_AT"], []])]
            if mut in ("unknown_cds", "empty_domains", "drop_category", "same_rules_other_strictness"):
                case["mut"] = None
                case["cur"] = dict(saved)
        return case

    @staticmethod
    def gen_opts(rng: random.Random) -> Dict[str, Any]:
        fungi = rng.random() < 0.4
        return {"strictness": rng.choice(["strict", "relaxed", "relaxed", "loose"]),
                "limit": rng.choice([[], [], [], ["T1PKS"], ["NRPS", "T1PKS"]]),
                "taxon": "fungi" if fungi else "bacteria",
                "cutoff": rng.choice(["1.0", "1.0", "2.0", "0.75"]) if fungi else "1.0",
                "nbh": rng.choice(["1.5", "1.5", "1.0", "2.25"]) if fungi else "1.5"}

    def gen_sideload(self, rng: random.Random) -> Dict[str, Any]:
        circular = rng.random() < 0.5
        length = rng.choice([1000, 5000, 12345])
        tool = {"name": rng.choice(["my tool", "ext-tool_x", "T"]), "version": rng.choice(["1.0", "2", "v0.3-beta"]),
                "description": rng.choice(["", "a description", "x"]),
                "configuration": rng.choice([{}, {"a": ["1", "2"]}, {"verbose": ["true"], "k": ["v"]}])}
        subs, protos = [], []
        for _ in range(rng.choice([0, 1, 1, 2, 3])):
            a = rng.randrange(0, length - 10)
            b = rng.randrange(a + 1, length + 1)
            if circular and rng.random() < 0.4:
                a, b = b, a   # wraps over the origin
                if a == b:
                    b = max(0, a - 5)
            subs.append({"start": a, "end": b, "label": rng.choice(["", "lbl", "some label"]),
                         "details": rng.choice([{}, {"score": ["6.5"]}, {"a": ["x", "y"], "b": ["z"]}])})
        for _ in range(rng.choice([0, 1, 1, 2, 3])):
            a = rng.randrange(0, length - 10)
            b = rng.randrange(a + 1, length + 1)
            nl = rng.choice([0, 0, 5, 50, a])
            nr = rng.choice([0, 0, 5, 50])
            if not circular:
                nl = min(nl, a)
                nr = min(nr, length - b)
            elif rng.random() < 0.4:
                a, b = b, a
                if a == b:
                    b = max(0, a - 5)
            protos.append({"core_start": a, "core_end": b, "product": rng.choice(["prodA", "T1PKS", "x-y_z"]),
                           "details": rng.choice([{}, {"score": ["6.5"]}]), "nl": nl, "nr": nr})
        mut = None
        if rng.random() < self.MUT_RATE:
            mut = rng.choice(["schema:2", "schema:missing", "record_id", "topology", "drop_details", "drop_nl",
                              "drop_description", "drop_configuration", "empty_json", "bad_tool_name", "str_detail"])
        # sideloading requested again on the reuse run: the same annotations, or changed ones
        request = None
        if mut is None and rng.random() < 0.5:
            request = rng.choice(["same", "same", "shift_area", "drop_area", "relabel", "tool_version", "extra_area",
                                  "detail"])
        elif mut in ("schema:2", "record_id") and rng.random() < 0.3:
            request = "same"
        return {"kind": "sideload", "record": {"id": rng.choice(["rec1", "acc.2"]), "length": length, "circular": circular},
                "tool": tool, "subs": subs, "protos": protos, "mut": mut, "request": request}

    def gen_hmmer(self, rng: random.Random) -> Dict[str, Any]:
        saved = {"max_evalue": rng.choice(["0.01", "0.1", "1e-05", "1e-10"]), "min_score": rng.choice(["0.0", "25.0", "50.0"])}
        evs = ["1e-30", "1e-12", "1e-10", "9.9e-11", "1e-05", "0.001", "0.01", "0.05", "0.1", "2.5e-07"]
        scs = ["0.0", "0.1", "10.0", "25.0", "25.1", "50.0", "49.9", "80.0", "300.5"]
        hits = []
        for i in range(rng.choice([0, 1, 2, 3, 5, 8])):
            ev = rng.choice([e for e in evs if fl(e) < fl(saved["max_evalue"])])
            cands = [s for s in scs if fl(s) > fl(saved["min_score"])]
            sc = rng.choice(cands)
            ps = rng.randrange(0, 80)
            pe = ps + rng.randrange(1, 40)
            hits.append({"gene": rng.randrange(3), "label": f"hit{i}", "domain": rng.choice(["p450", "PF00001.1 x", "ABC_tran"]),
                         "evalue": ev, "score": sc, "identifier": rng.choice(["PF00067.25", "PF00005.30"]),
                         "description": rng.choice(["desc", "Cytochrome P450", "x y"]), "ps": ps, "pe": pe})
        cur = dict(saved)
        mut = None
        op = "regenerate"
        if rng.random() < 0.55:
            mut = rng.choice(["stricter_score", "stricter_evalue", "laxer_score", "laxer_evalue", "boundary_score",
                              "boundary_evalue", "schema:1", "schema:missing", "record_id", "null_evalue", "int_score",
                              "hits_not_list", "empty_json", "drop_hit_key", "extra_hit_key", "inverted_hit",
                              "refilter_stricter", "refilter_laxer_score", "refilter_laxer_evalue"])
            hit_scores = sorted({h["score"] for h in hits}, key=fl)
            hit_evs = sorted({h["evalue"] for h in hits}, key=fl)
            if mut in ("stricter_score", "refilter_stricter"):
                cur["min_score"] = rng.choice([s for s in scs if fl(s) > fl(saved["min_score"])])
            if mut in ("stricter_evalue", "refilter_stricter"):
                cur["max_evalue"] = rng.choice([e for e in evs if fl(e) < fl(saved["max_evalue"])])
            if mut in ("laxer_score", "refilter_laxer_score"):
                cur["min_score"] = str(fl(saved["min_score"]) - rng.choice([0.5, 10.0]))
            if mut in ("laxer_evalue", "refilter_laxer_evalue"):
                cur["max_evalue"] = str(fl(saved["max_evalue"]) * rng.choice([2, 10]))
            if mut == "boundary_score" and hit_scores:
                cur["min_score"] = rng.choice(hit_scores)
            if mut == "boundary_evalue" and hit_evs:
                cur["max_evalue"] = rng.choice(hit_evs)
            if mut.startswith("refilter"):
                op = "refilter"
        versions = rng.choice([["31.0", "34.0", "35.0"], ["9.0", "10.0", "31.0"], ["35.0", "35.1", "35.10", "4.0"]])
        installed = rng.sample(versions, rng.choice([1, 2, 3]))      # directory listing order is arbitrary
        pfam = {"stored": rng.choice(installed), "installed": installed,
                "full": rng.choice(["latest"] + installed), "cluster": rng.choice(["latest"] + installed)}
        then = None
        if mut in ("stricter_score", "stricter_evalue", "boundary_score", "boundary_evalue") or (mut is None and rng.random() < 0.3):
            # a third run, from the re-saved results: between the two earlier thresholds, stricter still, or the same
            then = {"max_evalue": rng.choice([cur["max_evalue"], saved["max_evalue"], "1e-05", "1e-12", "1e-30"]),
                    "min_score": rng.choice([cur["min_score"], saved["min_score"], "25.0", "49.9", "80.0"])}
        return {"kind": "hmmer", "module": rng.choice(["full_hmmer", "cluster_hmmer"]), "record_id": rng.choice(["rec1", "X.1"]),
                "saved": saved, "cur": cur, "hits": hits, "op": op, "mut": mut, "pfam": pfam, "then": then}

    def gen_tta(self, rng: random.Random) -> Dict[str, Any]:
        # sequence with a chosen GC content; genes with TTA codons on both strands
        n = rng.choice([60, 120, 300])
        gc_target = rng.choice([0.25, 0.5, 0.5, 0.6, 0.65, 0.7, 0.75, 0.4])
        genes = []
        seq = []
        ngenes = rng.choice([1, 2, 3])
        for g in range(ngenes):
            codons = rng.randrange(4, 14)
            body = []
            for _ in range(codons):
                r = rng.random()
                if r < 0.25:
                    body.append("TTA")
                elif r < 0.35:
                    body.append("TAA")   # reverse complement is TTA
                else:
                    body.append(rng.choice(["GCC", "GGC", "CCG", "ATG", "GAT", "CGC", "AAG"]))
            strand = rng.choice([1, -1])
            spacer = "GC" * rng.randrange(1, 6)
            seq.append(spacer)
            start = len("".join(seq))
            text = "".join(body)
            gene = {"name": f"g{g}", "lo": start, "hi": start + 3 * codons, "strand": strand}
            if rng.random() < 0.35:
                # two exons; the split may fall inside a codon
                k = rng.randrange(1, len(text))
                intron = "GT" + "C" * rng.randrange(0, 7) + "AG"
                seq.append(text[:k] + intron + text[k:])
                parts = [[start, start + k], [start + k + len(intron), start + len(intron) + len(text)]]
                gene["parts"] = parts if strand == 1 else parts[::-1]
                gene["hi"] = start + len(intron) + len(text)
            else:
                seq.append(text)
            genes.append(gene)
        s = "".join(seq)
        # pad to reach the GC target exactly where possible
        total = len(s) + n
        want_gc = round(gc_target * total)
        have_gc = sum(1 for c in s if c in "GC")
        need = max(0, min(n, want_gc - have_gc))
        pad = "G" * need + "A" * (n - need)
        s = s + pad
        gc = sum(1 for c in s if c in "GC") / len(s)
        around = [str(gc), str(round(gc - 0.01, 4)), str(round(gc + 0.01, 4)), "0.65", "0.0", "1.0", "0.5",
                  repr(gc_target)]
        thresholds = [rng.choice(around) for _ in range(4)]
        if rng.random() < 0.5:
            thresholds[2] = thresholds[0]
        steps = [{"threshold": t, "mode": rng.choice(["run", "run", "run", "not_in_all", "disabled"])} for t in thresholds[1:]]
        mut = None
        if rng.random() < 0.3:
            mut = rng.choice(["schema:2", "schema:4", "record_id", "empty_json"])
        return {"kind": "tta", "record_id": rng.choice(["rec1", "Y.9"]), "seq": s, "genes": genes,
                "t0": thresholds[0], "steps": steps, "mut": mut}

    def gen_sideopt(self, rng: random.Random) -> Dict[str, Any]:
        length = rng.choice([8000, 30000, 60000])
        circular = rng.random() < 0.5
        ngenes = length // 1000
        rec = {"id": rng.choice(["rec1", "acc.2"]), "original_id": rng.choice([None, None, "orig_name"]),
               "length": length, "circular": circular, "ngenes": ngenes}
        names = [f"g{i}" for i in range(ngenes)]

        def span() -> List[int]:
            g = rng.randrange(ngenes)
            a = max(0, g * 1000 + 100 - rng.choice([0, 50, 700]))
            b = min(length, g * 1000 + 400 + rng.choice([0, 60, 900, 2500]))
            if circular and rng.random() < 0.25:      # wraps over the origin, contains g0 or the last gene
                a = length - rng.choice([700, 1500])
                b = rng.choice([450, 1450])
            return [a, b]

        def files() -> List[Dict[str, Any]]:
            out = []
            for f in range(rng.choice([0, 0, 1, 1, 2])):
                subs = [{"start": s[0], "end": s[1], "label": rng.choice(["lbl", "some label"]),
                         "details": rng.choice([{}, {"score": ["6.5"]}])} for s in (span() for _ in range(rng.choice([0, 1, 2])))]
                protos = [{"core_start": s[0], "core_end": s[1], "product": rng.choice(["T1PKS", "prodA"]),
                           "nl": rng.choice([0, 50]), "nr": rng.choice([0, 70])}
                          for s in (span() for _ in range(rng.choice([0, 0, 1])))]
                out.append({"tool": {"name": f"tool {'ab'[f]}", "version": "1.0", "description": "desc"}, "subs": subs,
                            "protos": protos, "other_record": rng.random() < 0.3})
            return out

        def simple() -> Any:
            if rng.random() < 0.6:
                return None
            s = span()
            if s[0] > s[1]:
                s = [s[1], s[1] + 1500]
            return [rng.choice([rec["id"], rec["id"], rec["original_id"] or rec["id"], "other_acc"]), s[0], s[1] + rng.choice([0, 100000])]
        saved = {"files": files(), "simple": simple(),
                 "markers": rng.sample(names, rng.choice([0, 0, 1, 2])) + (["nosuchgene"] if rng.random() < 0.15 else []),
                 "padding": rng.choice([20000, 20000, 0, 500, 1234, 70000])}
        cur = copy.deepcopy(saved)
        mut = None
        if rng.random() < 0.6:
            mut = rng.choice(["padding", "padding", "padding", "markers_add", "markers_drop", "simple", "files", "none_requested",
                              "only_padding_no_markers", "schema:2", "record_id"])
            if mut == "padding":
                if not saved["markers"]:
                    saved["markers"] = cur["markers"] = [rng.choice(names)]
                cur["padding"] = rng.choice([p for p in (20000, 0, 500, 1234, 999) if p != saved["padding"]])
            elif mut == "only_padding_no_markers":
                saved["markers"] = cur["markers"] = []
                cur["padding"] = saved["padding"] + 1
            elif mut == "markers_add":
                cur["markers"] = saved["markers"] + [rng.choice(names)]
            elif mut == "markers_drop":
                if not saved["markers"]:
                    saved["markers"] = [rng.choice(names)]
                cur["markers"] = saved["markers"][:-1]
            elif mut == "simple":
                cur["simple"] = simple() if saved["simple"] is None or rng.random() < 0.5 else None
            elif mut == "files":
                cur["files"] = files()
            elif mut == "none_requested":
                cur = {"files": [], "simple": None, "markers": [], "padding": rng.choice([20000, 5])}
        return {"kind": "sideopt", "record": rec, "saved": saved, "cur": cur, "mut": mut}

    def gen_resfile(self, rng: random.Random) -> Dict[str, Any]:
        records = []
        for r in range(rng.choice([1, 1, 2, 3])):
            tta_codons = [[g, off] for g in range(3) for off in rng.sample(range(0, 27, 3), rng.choice([0, 0, 1, 2]))]
            hits = []
            for i in range(rng.choice([0, 0, 1, 3])):
                ps = rng.randrange(0, 20)
                hits.append({"gene": rng.randrange(3), "label": f"hit{i}", "domain": "p450", "evalue": rng.choice(["1e-30", "0.001", "2.5e-07"]),
                             "score": rng.choice(["10.0", "25.1", "300.5"]), "identifier": "PF00067.25", "description": "desc",
                             "ps": ps, "pe": ps + rng.randrange(1, 9)})
            records.append({"id": f"rec{r}", "tta": tta_codons if rng.random() < 0.8 else None,
                            "tta_threshold": rng.choice(["0.0", "0.3", "0.65"]), "hmmer": hits if rng.random() < 0.6 else None,
                            "none_entry": rng.random() < 0.2, "original_id": rng.choice([None, None, "orig name"])})
        mut = None
        if rng.random() < 0.6:
            mut = rng.choice(["schema:5", "schema:5", "schema:0", "schema:-1", "schema:17", "schema:3", "schema:2", "schema:1",
                              "schema:missing", "schema:null", "schema:str", "schema:true", "renamed_key:5", "both_keys:5",
                              "both_keys:4", "drop_version", "drop_input_file", "drop_taxon", "drop_modules", "drop_records"])
        taxon = rng.choice(["bacteria", "fungi"])
        return {"kind": "resfile", "records": records, "taxon": taxon, "cur_taxon": rng.choice(["bacteria", "fungi"]),
                "version": rng.choice(["8.0.0", "7.1.0", "8.0.1beta1"]), "input_file": rng.choice(["input.gbk", "seq.fasta"]),
                "timings": rng.random() < 0.5, "flow": rng.choice(["from_file", "read_data", "read_data"]),
                "bz2": rng.random() < 0.15, "mut": mut}

    def all_runmod(self) -> Iterator[Dict[str, Any]]:
        for has_prev in (False, True):
            for regen in ("reuse", "reuse_empty", "discard", "refuse"):
                for in_all in (False, True):
                    for enabled in (False, True):
                        if not has_prev and regen != "reuse":
                            continue
                        yield {"kind": "runmod", "has_prev": has_prev, "regen": regen, "in_all": in_all, "enabled": enabled}

    def small_scope(self) -> Iterator[Dict[str, Any]]:
        """exhaustive TTA decision table: (gc, old, new) over a 4-point grid, with and without codons;
           exhaustive HMMer threshold grid on a fixed hit list"""
        grid = ["0.4", "0.5", "0.6", "0.7"]
        total = 0
        for seq, genes in ((("GCTTAGCGCATTAGC" + "TTAGC" * 3), [{"name": "g0", "lo": 0, "hi": 30, "strand": 1}]),
                           ("GCGCGCATGC" * 3, [{"name": "g0", "lo": 0, "hi": 30, "strand": -1}])):
            gc = sum(1 for c in seq if c in "GC") / len(seq)
            pts = sorted(set(grid + [str(gc)]), key=float)
            for t0 in pts:
                for t1 in pts:
                    for t2 in pts:
                        total += 1
                        yield {"kind": "tta", "record_id": "rec1", "seq": seq, "genes": genes, "t0": t0,
                               "steps": [{"threshold": t1}, {"threshold": t2}], "mut": None}
        hits = [{"gene": 0, "label": f"h{i}", "domain": "d", "evalue": e, "score": s, "identifier": "PF00067.25",
                 "description": "d", "ps": 1, "pe": 5} for i, (e, s) in enumerate(
                     [("1e-10", "30.0"), ("1e-05", "50.0"), ("0.001", "26.0"), ("1e-07", "80.0")])]
        evs = ["1e-10", "1e-07", "1e-05", "0.001", "0.01", "0.1"]
        scs = ["0.0", "25.0", "26.0", "30.0", "50.0", "80.0", "90.0"]
        for ev in evs:
            for sc in scs:
                for op in ("regenerate", "refilter"):
                    total += 1
                    yield {"kind": "hmmer", "module": "full_hmmer", "record_id": "rec1",
                           "saved": {"max_evalue": "0.01", "min_score": "25.0"}, "cur": {"max_evalue": ev, "min_score": sc},
                           "hits": hits, "op": op, "mut": "grid"}
        # every combination of the two sibling pfam options, stored version and module
        for module in ("full_hmmer", "cluster_hmmer"):
            for stored in ("34.0", "35.0"):
                for full in ("latest", "34.0", "35.0"):
                    for cluster in ("latest", "34.0", "35.0"):
                        for installed in (["34.0"], ["34.0", "35.0"]):
                            if stored not in installed:
                                continue
                            total += 1
                            yield {"kind": "hmmer", "module": module, "record_id": "rec1",
                                   "saved": {"max_evalue": "0.01", "min_score": "0.0"}, "cur": {"max_evalue": "0.01", "min_score": "0.0"},
                                   "hits": hits[:2], "op": "regenerate", "mut": None,
                                   "pfam": {"stored": stored, "installed": installed, "full": full, "cluster": cluster}}
        # sideloading by gene: every pair (saved padding, current padding) on a line and a ring
        pads = [0, 500, 20000, 1234]
        for circular in (False, True):
            for a in pads:
                for b in pads:
                    total += 1
                    base = {"files": [], "simple": None, "markers": ["g3"], "padding": a}
                    yield {"kind": "sideopt", "record": {"id": "rec1", "original_id": None, "length": 8000, "circular": circular,
                                                         "ngenes": 8},
                           "saved": base, "cur": dict(base, padding=b), "mut": "padding" if a != b else None}
        self.exhaustive_done = True
        self.extra_coverage = {"small_scope_cases": total}

    # ------------------------------------------------------------------ implementation adapters
    def run_impl(self, case: Dict[str, Any]) -> Dict[str, Any]:
        with quiet():
            return getattr(self, "impl_" + case["kind"])(case)

    # ---- HMMResult
    @staticmethod
    def build_hit(tree: List[Any]) -> Any:
        from antismash.common.hmmscan_refinement import HMMResult
        name, lo, hi, ev, bs, kids = tree
        return HMMResult(name, lo, hi, fl(ev), fl(bs), internal_hits=[C11.build_hit(k) for k in kids])

    @staticmethod
    def first_with_kids(j: Dict[str, Any]) -> Optional[Dict[str, Any]]:
        if j.get("internal_hits"):
            return j
        return None

    @staticmethod
    def mutate_hit_json(j: Dict[str, Any], mut: Optional[str]) -> bool:
        """applies the mutation to a HMMResult JSON dict; False when not applicable"""
        if mut == "displace_kid":
            if not j.get("internal_hits"):
                return False
            kid = j["internal_hits"][0]
            width = kid["query_end"] - kid["query_start"]
            kid["query_start"] = j["query_end"] + 3
            kid["query_end"] = kid["query_start"] + width
            for sub in kid.get("internal_hits", []):   # keep the grandchildren co-located with the moved kid
                sub["query_start"], sub["query_end"] = kid["query_start"], kid["query_end"]
            return True
        if mut == "touching_kid":
            if not j.get("internal_hits"):
                return False
            kid = j["internal_hits"][0]
            kid["query_start"], kid["query_end"] = j["query_end"], j["query_end"] + 4
            kid.pop("internal_hits", None)
            return True
        if mut == "drop_evalue":
            j.pop("evalue")
            return True
        if mut == "drop_hit_id":
            j.pop("hit_id")
            return True
        if mut == "drop_internal":
            return j.pop("internal_hits", None) is not None
        return True

    def impl_hmmresult(self, case: Dict[str, Any]) -> Dict[str, Any]:
        import orjson
        from antismash.common.hmmscan_refinement import HMMResult
        x = self.build_hit(case["hit"])
        j_in = orjson.loads(orjson.dumps(x.to_json()))
        applied = self.mutate_hit_json(j_in, case.get("mut"))
        obs: Dict[str, Any] = {"json_in": to_wire(j_in), "mutated": bool(case.get("mut")) and applied}
        self.cycle(obs, j_in, lambda j: HMMResult.from_json(j), lambda y: y.to_json())
        obs.pop("_obj", None)
        return obs

    @staticmethod
    def cycle(obs: Dict[str, Any], j_in: Any, regen: Any, enc: Any, n: int = 3) -> Dict[str, Any]:
        """regen/encode n times; records the first outcome, the first rewritten JSON, and byte stability"""
        import orjson
        b_in = orjson.dumps(j_in)
        cur = j_in
        stable = True
        for i in range(n):
            try:
                y = regen(orjson.loads(orjson.dumps(cur)))
            except Exception as exc:  # pylint: disable=broad-except
                if i == 0:
                    obs["outcome"] = outcome_of(exc)
                    obs["msg"] = str(exc)[:160]
                else:
                    stable = False
                    obs["later_failure"] = f"cycle {i}: {type(exc).__name__}: {exc}"[:200]
                break
            if y is None:
                if i == 0:
                    obs["outcome"] = "discard"
                else:
                    stable = False
                    obs["later_failure"] = f"cycle {i}: discarded"
                break
            nxt = enc(y)
            b = orjson.dumps(nxt)
            if i == 0:
                obs["outcome"] = "reuse"
                obs["json_out"] = to_wire(orjson.loads(b))
                obs["_obj"] = y
                obs["same_as_input"] = b == b_in
                b_first = b
            elif b != b_first:
                stable = False
            cur = orjson.loads(b)
        obs["bytes_stable"] = stable
        return obs

    # ---- NRPS/PKS domains
    def nrps_record(self, case: Dict[str, Any], record_id: Optional[str] = None) -> Any:
        from antismash.common.secmet.test.helpers import DummyCDS, DummyRecord, DummySubRegion
        feats = []
        pos = 100
        order = case["genes"]
        for g in order:
            feats.append(DummyCDS(pos, pos + 3000, g["strand"], locus_tag=g["name"], translation="M" * 1000))
            pos += 3100
        rec = renamed(DummyRecord(features=feats, seq="A" * (pos + 200), record_id=record_id or case["record_id"]),
                      case["record_id"])
        rec.add_subregion(DummySubRegion(50, pos + 100))
        rec.create_regions()
        return rec

    def nrps_generate(self, case: Dict[str, Any], record: Any) -> Any:
        from antismash.detection.nrps_pks_domains import domain_identification as di
        domains = {g["name"]: [self.build_hit(t) for t in g["domains"]] for g in case["genes"] if g["domains"]}
        motifs = {g["name"]: [self.build_hit(t) for t in g["motifs"]] for g in case["genes"] if g["motifs"]}
        saved = (di.find_domains, di.find_subtypes, di.find_ab_motifs, di.get_database_path, di.get_fasta_from_features)
        di.find_domains = lambda fasta, rec: domains
        di.find_subtypes = lambda *a, **k: {}
        di.find_ab_motifs = lambda fasta: motifs
        di.get_database_path = lambda *a: ""
        di.get_fasta_from_features = lambda feats: ""
        try:
            return di.generate_domains(record)
        finally:
            (di.find_domains, di.find_subtypes, di.find_ab_motifs, di.get_database_path, di.get_fasta_from_features) = saved

    def impl_nrpspks(self, case: Dict[str, Any]) -> Dict[str, Any]:
        import orjson
        from antismash.detection import nrps_pks_domains
        rec_a = self.nrps_record(case)
        try:
            x = self.nrps_generate(case, rec_a)
        except Exception as exc:  # generation itself failed: not a C11 matter
            return {"skip": f"generation failed: {type(exc).__name__}: {exc}"[:200]}
        x.add_to_record(rec_a)
        j_in = orjson.loads(orjson.dumps(x.to_json()))
        mut = case.get("mut")
        applied = True
        cur_record_id = case["record_id"]
        if mut:
            applied = self.mutate_nrps(j_in, mut)
            if mut == "record_id":
                cur_record_id = case["record_id"] + "_0"
        obs: Dict[str, Any] = {"json_in": to_wire(j_in), "mutated": bool(mut) and applied,
                               "ctx": {"record_id": cur_record_id, "cds_names": [g["name"] for g in case["genes"]], "original_id": case["record_id"]},
                               "n_modules": sum(len(r.modules) for r in x.cds_results.values()),
                               "n_cds": len(x.cds_results)}
        records: List[Any] = []

        def regen(j: Any) -> Any:
            rec = self.nrps_record(case, cur_record_id)
            records.append(rec)
            return nrps_pks_domains.regenerate_previous_results(j, rec, None)
        self.cycle(obs, j_in, regen, lambda y: y.to_json())
        if obs.get("outcome") == "reuse":
            obs["domain_ids"] = [d.domain_id for d in records[0].get_antismash_domains()]
            # the order in which the original run added its domain and motif features
            obs["feature_order_equal"] = (
                [d.domain_id for d in rec_a.get_antismash_domains()] == obs["domain_ids"]
                and [m.domain_id for m in rec_a.get_cds_motifs()] == [m.domain_id for m in records[0].get_cds_motifs()])
            try:
                obs["_obj"].add_to_record(records[0])
                obs["features_equal"] = feature_obs(records[0]) == feature_obs(rec_a)
            except Exception as exc:  # pylint: disable=broad-except
                obs["features_equal"] = False
                obs["feature_error"] = f"{type(exc).__name__}: {exc}"[:200]
        obs.pop("_obj", None)
        return obs

    def mutate_nrps(self, j: Dict[str, Any], mut: str) -> bool:
        if mut.startswith("schema:"):
            val = mut.split(":")[1]
            if val == "missing":
                j.pop("schema_version")
            elif val == "none":
                j["schema_version"] = None
            elif val == "str":
                j["schema_version"] = "4"
            else:
                j["schema_version"] = int(val)
            return True
        if mut == "record_id":
            return True
        cds = j["cds_results"]
        if mut == "unknown_cds":
            if not cds:
                return False
            first = next(iter(cds))
            items = [(("nosuchgene" if k == first else k), v) for k, v in cds.items()]
            cds.clear()
            cds.update(items)
            return True
        for res in cds.values():
            if mut == "drop_first_in_cds":
                for mod in res["modules"]:
                    mod.pop("first_in_cds")
                    return True
            if mut == "unknown_profile":
                for mod in res["modules"]:
                    mod["components"][0]["domain"]["hit_id"] = "NoSuchProfile"
                    return True
            if mut == "empty_locus":
                for mod in res["modules"]:
                    mod["components"][-1]["locus"] = ""
                    return True
            if mut in ("second_starter", "duplicate_loader", "swap_components"):
                # stored modules that may no longer be acceptable to add_component
                for mod in res["modules"]:
                    comps = mod["components"]
                    if mut == "second_starter":
                        comps.append({"domain": {"hit_id": "PKS_KS", "query_start": 990, "query_end": 999,
                                                 "evalue": 1e-9, "bitscore": 30.5}, "locus": comps[-1]["locus"]})
                    elif mut == "duplicate_loader":
                        comps.append({"domain": {"hit_id": "AMP-binding", "query_start": 990, "query_end": 999,
                                                 "evalue": 1e-9, "bitscore": 30.5}, "locus": comps[-1]["locus"]})
                    else:
                        comps.reverse()
                    return True
            if mut == "displace_kid":
                for hit in res["domain_hmms"]:
                    if hit.get("internal_hits"):
                        return self.mutate_hit_json(hit, "displace_kid")
        return False

    # ---- rule-based detection
    def det_record(self, case: Dict[str, Any], record_id: Optional[str] = None) -> Any:
        from antismash.common.secmet.test.helpers import DummyCDS, DummyRecord
        r = case["record"]
        feats = [DummyCDS(g["lo"], g["hi"], g["strand"], locus_tag=g["name"],
                          translation="M" * max(1, (g["hi"] - g["lo"]) // 3 - 1)) for g in r["genes"]]
        rec = DummyRecord(features=feats, seq="A" * r["length"], record_id=record_id or r["id"], circular=r["circular"])
        rec._record.annotations["molecule_type"] = "DNA"   # pylint: disable=protected-access
        if case.get("subregion"):
            from antismash.common.secmet.test.helpers import DummySubRegion
            rec.add_subregion(DummySubRegion(case["subregion"][0], case["subregion"][1]))
        return renamed(rec, r["id"])

    @staticmethod
    def det_annotations(record: Any) -> List[Any]:
        return sorted(
            [cds.get_name(),
             [[d.name, dec_of(d.evalue), dec_of(d.bitscore), d.nseeds, d.tool] for d in cds.sec_met.domains],
             [[str(f.function), f.tool, f.description, f.product] for f in cds.gene_functions]]
            for cds in record.get_cds_features() if cds.sec_met)

    @staticmethod
    def det_reloaded(record: Any, taxon: str) -> Any:
        """what main.read_data hands to the modules: the record read back from its JSON (with the annotations
           the first run put on it) and then stripped of them"""
        import orjson
        from antismash.common import serialiser
        data = orjson.loads(orjson.dumps(serialiser.record_to_json(record.to_biopython())))
        rec = serialiser.record_from_json(data, taxon)
        rec.strip_antismash_annotations()
        return rec

    @staticmethod
    def mk_loc(parts: List[List[int]]) -> Any:
        from antismash.common.secmet.locations import CompoundLocation, FeatureLocation
        locs = [FeatureLocation(a, b, 1) for a, b in parts]
        return locs[0] if len(locs) == 1 else CompoundLocation(locs)

    def det_build(self, case: Dict[str, Any], record: Any, enabled: List[str]) -> Any:
        from antismash.common.hmm_rule_parser.cluster_prediction import CDSResults, RuleDetectionResults
        from antismash.common.hmm_rule_parser.structures import Multipliers
        from antismash.common.secmet.features import Protocluster
        from antismash.common.secmet.qualifiers import SecMetQualifier
        from antismash.detection.hmm_detection import HMMDetectionResults
        tool = case["tool"]
        shared: Dict[str, Any] = {}

        def cds_result(name: str) -> Any:
            if name not in shared:
                spec = case["cdsres"][name]
                doms = [SecMetQualifier.Domain(n, fl(e), fl(b), s, tool) for n, e, b, s in spec["domains"]]
                defs = {}
                for product, names in spec["defs"].items():
                    group = set()
                    for n in names:      # insertion order as given: the set's history
                        group.add(n)
                    defs[product] = group
                shared[name] = CDSResults(record.get_cds_by_name(name), doms, defs)
            return shared[name]
        by_cluster = {}
        for cl in case["clusters"]:
            proto = Protocluster(self.mk_loc(cl["core"]), self.mk_loc(cl["loc"]), tool, cl["product"], cl["cutoff"],
                                 cl["nbh"], cl["rule"], product_category=cl["category"])
            names = [case["record"]["genes"][g]["name"] for g in cl["genes"]]
            by_cluster[proto] = [cds_result(n) for n in names if n in case["cdsres"]]
        in_clusters = {n for cl in case["clusters"] for n in (case["record"]["genes"][g]["name"] for g in cl["genes"])}
        outside = [cds_result(n) for n in case["outside"] if n not in in_clusters]
        saved = case["saved"]
        mult = Multipliers(fl(saved["cutoff"]), fl(saved["nbh"])) if saved["taxon"] == "fungi" else Multipliers()
        rr = RuleDetectionResults(by_cluster, tool, outside, mult)
        return HMMDetectionResults(record.id, rr, enabled, saved["strictness"])

    def det_run(self, case: Dict[str, Any], record: Any, options: Any) -> Any:
        """the real hmm_detection.run_on_record; only the hmmsearch call is replaced by the case's hits"""
        from antismash.common.hmm_rule_parser import cluster_prediction as cp
        from antismash.common.hmm_rule_parser.structures import HMMerHit
        from antismash.detection import hmm_detection
        hits = case.get("hits", {})

        def fake(_record: Any, sigs: Dict[str, Any], _db: str, _groups: Any) -> Dict[str, List[Any]]:
            out: Dict[str, List[Any]] = {}
            for name, found in hits.items():
                mine = [HMMerHit(name, p, 5, 25, sigs[p].seed_count, fl(e), fl(b)) for p, b, e in found if p in sigs]
                if mine:
                    out[name] = mine
            return out
        saved = cp.find_hmmer_hits
        cp.find_hmmer_hits = fake
        try:
            return hmm_detection.run_on_record(record, None, options)
        finally:
            cp.find_hmmer_hits = saved

    _RULE_INFO: List[Any] = []

    @classmethod
    def rule_info(cls) -> List[Any]:
        """[name, first strictness level defining it, category] straight from the rule files (no rule-set cache)"""
        if not cls._RULE_INFO:
            from antismash.detection import hmm_detection
            seen: Dict[str, int] = {}
            cats: Dict[str, str] = {}
            for level, strictness in enumerate(["strict", "relaxed", "loose"]):
                for rule in hmm_detection._get_rules(strictness):   # pylint: disable=protected-access
                    seen.setdefault(rule.name, level)
                    cats[rule.name] = rule.category
            cls._RULE_INFO = [[name, level, cats[name]] for name, level in seen.items()]
        return cls._RULE_INFO

    @staticmethod
    def det_config(o: Dict[str, Any]) -> Any:
        return config(hmmdetection_strictness=o["strictness"], hmmdetection_limit_to_rules=list(o["limit"]),
                      taxon=o["taxon"], hmmdetection_fungal_cutoff_multiplier=fl(o["cutoff"]),
                      hmmdetection_fungal_neighbourhood_multiplier=fl(o["nbh"]))

    @staticmethod
    def det_observe(results: Any, record: Any) -> Tuple[Any, bytes]:
        """what the pipeline does with detection results: annotate genes (done by run/regenerate), add the
           protoclusters; returns (features, the JSON written afterwards)"""
        import orjson
        for proto in results.get_predicted_protoclusters():
            record.add_protocluster(proto)
        feats = feature_obs(record)
        return feats, orjson.dumps(results.to_json())

    def impl_hmmdet(self, case: Dict[str, Any]) -> Dict[str, Any]:
        import orjson
        from antismash.detection import hmm_detection
        saved_opts = self.det_config(case["saved"])
        enabled = list(hmm_detection.get_ruleset(saved_opts).get_rule_names())
        rec_a = self.det_record(case)
        via = case.get("via", "direct")
        if via == "run":
            x = self.det_run(case, rec_a, saved_opts)
        else:
            x = self.det_build(case, rec_a, enabled)
            x.rule_results.annotate_cds_features()     # as run_on_record does
        j_in = orjson.loads(orjson.dumps(x.to_json()))
        fresh_wire = to_wire(j_in) if via == "run" else None
        n_outside, n_protos = len(x.rule_results.cdses_outside_clusters), len(x.get_predicted_protoclusters())
        saved_names = sorted(hmm_detection.get_ruleset(saved_opts).get_rule_names())
        mut = case.get("mut")
        applied = True
        cur_record_id = case["record"]["id"]
        if mut:
            applied = self.mutate_det(j_in, mut)
            if mut == "record_id":
                cur_record_id += "_0"
        cur_opts = self.det_config(case["cur"])
        rule_names = sorted(hmm_detection.get_ruleset(cur_opts).get_rule_names())
        obs: Dict[str, Any] = {
            "json_in": to_wire(j_in), "mutated": bool(mut) and applied,
            "ctx": {"record_id": cur_record_id, "cds_names": [g["name"] for g in case["record"]["genes"]], "original_id": case["record"]["id"]},
            "impl_rule_names": rule_names,
            "opts": {"strictness": case["cur"]["strictness"], "rules": self.rule_info(), "limit_names": list(case["cur"]["limit"]),
                     "limit_categories": [],
                     "fungi": case["cur"]["taxon"] == "fungi", "cutoff": dec_of(fl(case["cur"]["cutoff"])),
                     "neighbourhood": dec_of(fl(case["cur"]["nbh"]))},
            "n_clusters": len(case["clusters"]) + len(x.get_predicted_protoclusters()) + (1 if via == "run" else 0)}
        obs["n_outside"], obs["n_protos"] = n_outside, n_protos
        if via == "run":
            obs["produced"] = {
                "saved_opts": {"strictness": case["saved"]["strictness"], "rules": self.rule_info(),
                               "limit_names": list(case["saved"]["limit"]), "limit_categories": [],
                               "fungi": case["saved"]["taxon"] == "fungi", "cutoff": dec_of(fl(case["saved"]["cutoff"])),
                               "neighbourhood": dec_of(fl(case["saved"]["nbh"]))},
                "fresh_json": fresh_wire, "no_genes": not case["record"]["genes"], "tool": x.rule_results.tool,
                "saved_record_id": case["record"]["id"]}
        records: List[Any] = []

        reload = bool(case.get("reload")) and mut != "record_id"
        orig_annotations = self.det_annotations(rec_a)
        reloaded = self.det_reloaded(rec_a, case["saved"]["taxon"]) if reload else None

        def regen(j: Any) -> Any:
            rec = reloaded if reload and not records else self.det_record(case, cur_record_id)
            records.append(rec)
            return hmm_detection.regenerate_previous_results(j, rec, cur_opts)
        self.cycle(obs, j_in, regen, lambda y: y.to_json())
        if obs.get("outcome") == "reuse":
            y = obs["_obj"]
            obs["protos"] = [{"loc": loc_obs(p.location), "core": loc_obs(p.core_location), "product": p.product}
                             for p in y.get_predicted_protoclusters()]
            # what regeneration annotated on the fresh record copy
            obs["annotations"] = self.det_annotations(records[0])
            obs["annotations_as_original"] = obs["annotations"] == orig_annotations
            try:
                if reload:
                    raise StopIteration
                feats_a, bytes_a = self.det_observe(x, rec_a)
                feats_b, bytes_b = self.det_observe(y, records[0])
                obs["features_equal"] = feats_a == feats_b
                obs["attached_bytes_equal"] = bytes_a == bytes_b
                if not obs["features_equal"]:
                    diff = [(a, b) for a, b in zip(feats_a, feats_b) if a != b][:1]
                    obs["feature_diff"] = repr(diff)[:400]
            except StopIteration:
                pass
            except Exception as exc:  # pylint: disable=broad-except
                obs["features_equal"] = False
                obs["feature_error"] = f"{type(exc).__name__}: {exc}"[:200]
        obs.pop("_obj", None)
        config()
        return obs

    @staticmethod
    def mutate_det(j: Dict[str, Any], mut: str) -> bool:
        rr = j["rule_results"]
        if mut.startswith("schema_outer:"):
            j["schema_version"] = int(mut.split(":")[1])
        elif mut.startswith("schema_inner:"):
            val = mut.split(":")[1]
            if val == "missing":
                rr.pop("schema_version")
            else:
                rr["schema_version"] = int(val)
        elif mut == "drop_strictness":
            j.pop("strictness")
        elif mut == "bad_strictness":
            j["strictness"] = "lenient"
        elif mut == "empty_json":
            j.clear()
        elif mut == "bad_multiplier":
            rr["multipliers"]["cutoff"] = 0.0
        elif mut in ("unknown_cds", "empty_domains"):
            for _, results in rr["cds_by_protocluster"]:
                for res in results:
                    if mut == "unknown_cds":
                        res["cds_name"] = "nosuchgene"
                    else:
                        res["domains"] = []
                    return True
            return False
        elif mut == "drop_category":
            for feat, _ in rr["cds_by_protocluster"]:
                if "category" in feat["qualifiers"]:
                    feat["qualifiers"].pop("category")
                    return True
            return False
        return True

    # ---- sideloader
    def side_record(self, case: Dict[str, Any], record_id: Optional[str] = None, circular: Optional[bool] = None) -> Any:
        from antismash.common.secmet.test.helpers import DummyRecord
        r = case["record"]
        return renamed(DummyRecord(seq="A" * r["length"], record_id=record_id or r["id"],
                                   circular=r["circular"] if circular is None else circular), r["id"])

    @staticmethod
    def side_predicted(results: Any) -> Dict[str, Any]:
        subs = [[loc_obs(s.location), s.tool, s.label] for s in results.get_predicted_subregions()]
        protos = [[loc_obs(p.location), loc_obs(p.core_location), p.tool, p.product]
                  for p in results.get_predicted_protoclusters()]
        return {"subregions": subs, "protoclusters": protos}

    def impl_sideload(self, case: Dict[str, Any]) -> Dict[str, Any]:
        import orjson
        from antismash.detection import sideloader
        from antismash.detection.sideloader.data_structures import (ProtoclusterAnnotation, SideloadedResults,
                                                                     SubRegionAnnotation, Tool)
        rec_a = self.side_record(case)
        origin = len(rec_a) if rec_a.is_circular() else None

        def build(tool_d: Dict[str, Any], sub_ds: List[Dict[str, Any]], proto_ds: List[Dict[str, Any]]) -> Any:
            tool = Tool(tool_d["name"], tool_d["version"], tool_d["description"], copy.deepcopy(tool_d["configuration"]))
            subs = [SubRegionAnnotation(s["start"], s["end"], s["label"], tool, copy.deepcopy(s["details"]),
                                        circular_origin=origin) for s in sub_ds]
            protos = [ProtoclusterAnnotation(p["core_start"], p["core_end"], p["product"], tool, copy.deepcopy(p["details"]),
                                             p["nl"], p["nr"], circular_origin=origin) for p in proto_ds]
            return subs, protos
        try:
            subs, protos = build(case["tool"], case["subs"], case["protos"])
        except ValueError as exc:
            return {"skip": f"not constructible: {exc}"[:200]}
        x = SideloadedResults(rec_a.id, subs, protos)
        j_in = orjson.loads(orjson.dumps(x.to_json()))
        mut = case.get("mut")
        applied = True
        cur_record_id = case["record"]["id"]
        cur_circular = case["record"]["circular"]
        if mut:
            applied = self.mutate_side(j_in, mut)
            if mut == "record_id":
                cur_record_id += "_0"
            if mut == "topology":
                cur_circular = not cur_circular
        cur_origin = case["record"]["length"] if cur_circular else None
        obs: Dict[str, Any] = {"json_in": to_wire(j_in), "mutated": bool(mut) and applied,
                               "ctx": {"record_id": cur_record_id, "cds_names": [], "origin": cur_origin, "original_id": case["record"]["id"]},
                               "n_areas": len(subs) + len(protos)}
        try:
            original = self.side_predicted(x)
        except Exception as exc:  # pylint: disable=broad-except
            return {"skip": f"original cannot build its areas: {type(exc).__name__}: {exc}"[:200]}

        # the current run's own sideload options (the loader is stubbed: file parsing is not C11's subject)
        request = case.get("request")
        options = SimpleNamespace(sideload=[], sideload_simple="", sideload_cds_markers=[], sideload_cds_padding=20000)
        requested = None
        if request:
            tool_d, sub_ds, proto_ds = self.requested_variant(case, request)
            try:
                req_subs, req_protos = build(tool_d, sub_ds, proto_ds)
            except ValueError as exc:
                return {"skip": f"requested annotations not constructible: {exc}"[:200]}
            requested = SideloadedResults(cur_record_id, req_subs, req_protos)
            options.sideload = ["annotations.json"]
            obs["requested"] = to_wire(orjson.loads(orjson.dumps(requested.to_json())))
            if req_subs != subs or req_protos != protos:
                obs["mutated"] = True
                obs["request_changed"] = True
        saved_loader = sideloader.load_single_record_annotations
        sideloader.load_single_record_annotations = lambda *a, **k: requested

        def regen(j: Any) -> Any:
            return sideloader.regenerate_previous_results(j, self.side_record(case, cur_record_id, cur_circular), options)
        try:
            self.cycle(obs, j_in, regen, lambda y: y.to_json())
        finally:
            sideloader.load_single_record_annotations = saved_loader
        if obs.get("outcome") == "reuse":
            try:
                obs["areas"] = self.side_predicted(obs["_obj"])
                obs["features_equal"] = obs["areas"] == original
            except Exception as exc:  # pylint: disable=broad-except
                obs["areas"] = {"err": err_kind(exc)}
                obs["features_equal"] = False
        obs.pop("_obj", None)
        return obs

    @staticmethod
    def requested_variant(case: Dict[str, Any], request: str) -> Tuple[Any, Any, Any]:
        tool = copy.deepcopy(case["tool"])
        subs = copy.deepcopy(case["subs"])
        protos = copy.deepcopy(case["protos"])
        if request == "shift_area":
            if subs:
                subs[0]["end"] += 1
            elif protos:
                protos[0]["nr"] += 1
        elif request == "drop_area":
            if subs:
                subs.pop()
            elif protos:
                protos.pop()
        elif request == "relabel":
            if subs:
                subs[-1]["label"] += "x"
            elif protos:
                protos[-1]["product"] += "x"
        elif request == "tool_version":
            tool["version"] += ".1"
        elif request == "extra_area":
            subs.append({"start": 1, "end": 9, "label": "new", "details": {}})
        elif request == "detail":
            if protos:
                protos[0]["details"] = {"changed": ["1"]}
            elif subs:
                subs[0]["details"] = {"changed": ["1"]}
        return tool, subs, protos

    @staticmethod
    def mutate_side(j: Dict[str, Any], mut: str) -> bool:
        areas = j["protoclusters"] + j["subregions"]
        if mut.startswith("schema:"):
            val = mut.split(":")[1]
            if val == "missing":
                j.pop("schema_version")
            else:
                j["schema_version"] = int(val)
            return True
        if mut in ("record_id", "topology"):
            return True
        if mut == "empty_json":
            j.clear()
            return True
        if not areas:
            return False
        if mut == "drop_details":
            areas[0].pop("details")
        elif mut == "drop_nl":
            if not j["protoclusters"]:
                return False
            j["protoclusters"][0].pop("neighbourhood_left")
        elif mut == "drop_description":
            areas[0]["tool"].pop("description")
        elif mut == "drop_configuration":
            areas[0]["tool"].pop("configuration")
        elif mut == "bad_tool_name":
            areas[0]["tool"]["name"] = "tool#1"
        elif mut == "str_detail":
            areas[0]["details"] = {"k": "bare string"}
        return True

    # ---- sideloader driven by its own options (real loader, real files)
    @staticmethod
    def sideopt_record(case: Dict[str, Any], record_id: Optional[str] = None) -> Any:
        from antismash.common.secmet.test.helpers import DummyCDS, DummyRecord
        r = case["record"]
        feats = [DummyCDS(i * 1000 + 100, i * 1000 + 400, 1 if i % 3 else -1, locus_tag=f"g{i}") for i in range(r["ngenes"])]
        rec = DummyRecord(features=feats, seq="A" * r["length"], record_id=record_id or r["id"], circular=r["circular"])
        if r["original_id"]:
            rec.original_id = r["original_id"]
        return renamed(rec, r["id"])

    def sideopt_options(self, case: Dict[str, Any], o: Dict[str, Any], tmp: str, tag: str, record: Any) -> Tuple[Any, Dict[str, Any]]:
        """the options object of one run + the model's view of it (files as what they parse to for this record)"""
        import os
        import orjson
        from antismash.detection.sideloader import SideloadSimple
        from antismash.detection.sideloader.general import load_single_record_annotations
        paths = []
        raw_files: List[Any] = []
        for i, f in enumerate(o["files"]):
            recs = [{"name": case["record"]["id"],
                     "subregions": [dict(start=s["start"], end=s["end"], label=s["label"], **({"details": s["details"]} if s["details"] else {}))
                                    for s in f["subs"]],
                     "protoclusters": [dict(core_start=p["core_start"], core_end=p["core_end"], product=p["product"],
                                            neighbourhood_left=p["nl"], neighbourhood_right=p["nr"]) for p in f["protos"]]}]
            if f["other_record"]:
                recs.append({"name": "someone_else", "subregions": [{"start": 1, "end": 900, "label": "x"}]})
            path = os.path.join(tmp, f"{tag}_{i}.json")
            content = {"tool": f["tool"], "records": recs}
            raw_files.append(to_wire(orjson.loads(orjson.dumps(content))))
            with open(path, "wb") as handle:
                handle.write(orjson.dumps(content))
            paths.append(path)
        simple = SideloadSimple(*o["simple"]) if o["simple"] else ""
        options = SimpleNamespace(sideload=paths, sideload_simple=simple, sideload_cds_markers=list(o["markers"]),
                                  sideload_cds_padding=o["padding"])
        view: Dict[str, Any] = {"n_files": len(paths), "simple": o["simple"], "markers": o["markers"], "padding": o["padding"]}
        if paths:
            load_single_record_annotations(paths, record, None, [], o["padding"])     # must be loadable on their own
            view["raw_files"] = raw_files
        return options, view

    def impl_sideopt(self, case: Dict[str, Any]) -> Dict[str, Any]:
        import os
        import tempfile
        import orjson
        from antismash.common.errors import AntismashInputError
        from antismash.detection import sideloader
        from antismash.detection.sideloader.general import load_single_record_annotations
        tmp = tempfile.mkdtemp(prefix="c11s_")
        try:
            rec_a = self.sideopt_record(case)
            try:
                saved_opts, saved_view = self.sideopt_options(case, case["saved"], tmp, "saved", rec_a)
                cur_id = case["record"]["id"] + ("_0" if case.get("mut") == "record_id" else "")
                cur_opts, cur_view = self.sideopt_options(case, case["cur"], tmp, "cur", self.sideopt_record(case, cur_id))
                if not sideloader.is_enabled(saved_opts):
                    return {"skip": "the saving run requests no sideloading"}
                stored = sideloader.run_on_record(rec_a, None, saved_opts)
                # what the current options load on their own must be loadable (input validation is not C11's subject)
                load_single_record_annotations(cur_opts.sideload, self.sideopt_record(case), cur_opts.sideload_simple or None,
                                               cur_opts.sideload_cds_markers, cur_opts.sideload_cds_padding)
            except (AntismashInputError, ValueError) as exc:
                return {"skip": f"annotations not loadable: {exc}"[:200]}
            j_in = orjson.loads(orjson.dumps(stored.to_json()))
            stored_wire = to_wire(j_in)
            mut = case.get("mut")
            cur_record_id = case["record"]["id"]
            if mut == "schema:2":
                j_in["schema_version"] = 2
            elif mut == "record_id":
                cur_record_id += "_0"
            r = case["record"]
            same_options = case["saved"] == case["cur"] and mut not in ("schema:2", "record_id")
            obs: Dict[str, Any] = {
                "json_in": to_wire(j_in), "stored": stored_wire, "mutated": not same_options,
                "n_areas": len(stored.subregions) + len(stored.protoclusters),
                "rec": {"id": cur_record_id, "original_id": r["id"] if cur_record_id != r["id"] else r["original_id"],
                        "length": r["length"], "circular": r["circular"],
                        "cds": [[f"g{i}", i * 1000 + 100, i * 1000 + 400] for i in range(r["ngenes"])]},
                "saved_rec_id": r["id"], "saved": saved_view, "cur": cur_view}
            finals: List[Any] = []

            def regen(j: Any) -> Any:
                rec = self.sideopt_record(case, cur_record_id)
                res = sideloader.regenerate_previous_results(j, rec, cur_opts)
                if not finals:
                    try:
                        finals.append(sideloader.run_on_record(rec, res, cur_opts))
                    except Exception as exc:  # pylint: disable=broad-except
                        finals.append(exc)
                return res
            self.cycle(obs, j_in, regen, lambda y: y.to_json())
            if finals and not isinstance(finals[0], Exception) and finals[0] is not None:
                obs["final"] = to_wire(orjson.loads(orjson.dumps(finals[0].to_json())))
            obs.pop("_obj", None)
            return obs
        finally:
            for name in os.listdir(tmp):
                os.unlink(os.path.join(tmp, name))
            os.rmdir(tmp)

    # ---- HMMer based
    def hmmer_record(self, case: Dict[str, Any], record_id: Optional[str] = None) -> Any:
        from antismash.common.secmet.test.helpers import DummyCDS, DummyRecord
        feats = [DummyCDS(100 + 1000 * i, 100 + 1000 * i + 600, 1 if i != 1 else -1, locus_tag=f"gene{i}",
                          translation="MAGIC" * 40) for i in range(3)]
        return renamed(DummyRecord(features=feats, seq="A" * 4000, record_id=record_id or case["record_id"]), case["record_id"])

    def impl_hmmer(self, case: Dict[str, Any]) -> Dict[str, Any]:
        import importlib
        import orjson
        from antismash.common.hmmer import HmmerHit, HmmerResults
        module = importlib.import_module(f"antismash.detection.{case['module']}")
        rec_a = self.hmmer_record(case)
        hits = []
        for h in case["hits"]:
            cds = rec_a.get_cds_by_name(f"gene{h['gene']}")
            location = cds.get_sub_location_from_protein_coordinates(h["ps"], h["pe"])
            hits.append(HmmerHit(location=str(location), label=h["label"], locus_tag=cds.get_name(), domain=h["domain"],
                                 evalue=fl(h["evalue"]), score=fl(h["score"]), identifier=h["identifier"],
                                 description=h["description"], protein_start=h["ps"], protein_end=h["pe"],
                                 translation=cds.translation[h["ps"]:h["pe"]]))
        tool = "fullhmmer" if case["module"] == "full_hmmer" else "clusterhmmer"
        pfam = case.get("pfam") or {"stored": "35.0", "installed": ["35.0"], "full": "latest", "cluster": "latest"}
        x = HmmerResults(rec_a.id, fl(case["saved"]["max_evalue"]), fl(case["saved"]["min_score"]),
                         f"/data/pfam/{pfam['stored']}/Pfam-A.hmm", tool, hits)
        j_in = orjson.loads(orjson.dumps(x.to_json()))
        mut = case.get("mut")
        applied = True
        cur_record_id = case["record_id"]
        if mut:
            applied = self.mutate_hmmer(j_in, mut)
            if mut == "record_id":
                cur_record_id += "_0"
        max_e, min_s = fl(case["cur"]["max_evalue"]), fl(case["cur"]["min_score"])
        changed = (max_e, min_s) != (fl(case["saved"]["max_evalue"]), fl(case["saved"]["min_score"]))
        obs: Dict[str, Any] = {"json_in": to_wire(j_in), "mutated": (bool(mut) and applied and mut != "grid") or changed,
                               "ctx": {"record_id": cur_record_id, "cds_names": [], "original_id": case["record_id"]},
                               "max_evalue": dec_of(max_e), "min_score": dec_of(min_s), "n_hits": len(hits),
                               "pfam": {"module": case["module"], "full": pfam["full"], "cluster": pfam["cluster"],
                                        "installed": list(pfam["installed"])}}
        saved_consts = (module.MAX_EVALUE, module.MIN_SCORE)
        records: List[Any] = []

        def regen(j: Any) -> Any:
            rec = self.hmmer_record(case, cur_record_id)
            records.append(rec)
            if case["op"] == "refilter":
                res = HmmerResults.from_json(j, rec)
                return res.refilter(max_e, min_s) if res is not None else None
            return module.regenerate_previous_results(j, rec, None)
        module.MAX_EVALUE, module.MIN_SCORE = max_e, min_s
        try:
            # stability is judged against the JSON the first regeneration writes when thresholds changed
            self.cycle(obs, j_in, regen, lambda y: y.to_json(), n=1 if changed else 3)
            if case["op"] == "regenerate" and obs.get("outcome") in ("reuse", "discard"):
                obs["run"] = self.hmmer_run(module, case, pfam, obs.get("_obj"), cur_record_id)
            if obs.get("outcome") == "reuse":
                y = obs["_obj"]
                obs["hits_out"] = [to_wire(orjson.loads(orjson.dumps(h.to_json()))) for h in y.hits]
                if not changed and not obs["mutated"]:
                    x.add_to_record(rec_a)
                    y.add_to_record(records[0])
                    obs["features_equal"] = feature_obs(rec_a) == feature_obs(records[0])
                    obs["domain_ids"] = [d.domain_id for d in records[0].get_pfam_domains()]
                if case.get("then"):
                    # a later run under yet other thresholds, starting from what this run saves
                    t_e, t_s = fl(case["then"]["max_evalue"]), fl(case["then"]["min_score"])
                    resaved = orjson.loads(orjson.dumps(y.to_json()))
                    obs["resaved_thresholds"] = [dec_of(resaved["max evalue"]), dec_of(resaved["min score"])]
                    module.MAX_EVALUE, module.MIN_SCORE = t_e, t_s
                    third: Dict[str, Any] = {}
                    self.cycle(third, resaved, lambda j: module.regenerate_previous_results(j, self.hmmer_record(case, cur_record_id), None),
                               lambda z: z.to_json(), n=1)
                    obs["then_outcome"] = third.get("outcome")
                    obs["then_hits"] = len(third["_obj"].hits) if third.get("outcome") == "reuse" else None
                    module.MAX_EVALUE, module.MIN_SCORE = max_e, min_s
                if changed:
                    # a second regeneration under the same (new) thresholds must be stable
                    second: Dict[str, Any] = {}
                    self.cycle(second, orjson.loads(orjson.dumps(y.to_json())), regen, lambda z: z.to_json(), n=2)
                    obs["bytes_stable"] = second.get("outcome") == "reuse" and second["bytes_stable"]
        finally:
            module.MAX_EVALUE, module.MIN_SCORE = saved_consts
        obs.pop("_obj", None)
        return obs

    def hmmer_run(self, module: Any, case: Dict[str, Any], pfam: Dict[str, Any], regenerated: Any, record_id: str) -> str:
        """the module's real run_on_record after regeneration; only the hmmscan run itself is replaced"""
        import os
        import tempfile
        from antismash.common import hmmer as hmmer_mod
        tmp = tempfile.mkdtemp(prefix="c11p_")
        made = []
        for version in pfam["installed"]:
            d = os.path.join(tmp, "pfam", version)
            os.makedirs(d)
            with open(os.path.join(d, "Pfam-A.hmm"), "w", encoding="utf-8") as handle:
                handle.write("x")
            made.append(d)
        options = SimpleNamespace(fullhmmer_pfamdb_version=pfam["full"], clusterhmmer_pfamdb_version=pfam["cluster"],
                                  database_dir=tmp)
        searched: List[str] = []

        def fake_run(record: Any, _features: Any, max_evalue: float, min_score: float, database: str, tool: str,
                     **_kwargs: Any) -> Any:
            searched.append(database)
            return hmmer_mod.HmmerResults(record.id, max_evalue, min_score, database, tool, [])
        saved = hmmer_mod.run_hmmer
        hmmer_mod.run_hmmer = fake_run
        try:
            rec = self.hmmer_record(case, record_id)
            rec.add_subregion(__import__("antismash.common.secmet.test.helpers", fromlist=["DummySubRegion"]).DummySubRegion(0, 3500))
            rec.create_regions()
            try:
                result = module.run_on_record(rec, regenerated, options)
            except Exception as exc:  # pylint: disable=broad-except
                return outcome_of(exc)
            if result is regenerated and regenerated is not None:
                return "keep"
            version = os.path.relpath(searched[-1], tmp).split(os.sep)[1] if searched else "?"
            return "rerun:" + version
        finally:
            hmmer_mod.run_hmmer = saved
            for d in made:
                os.unlink(os.path.join(d, "Pfam-A.hmm"))
                os.rmdir(d)
            os.rmdir(os.path.join(tmp, "pfam"))
            os.rmdir(tmp)

    @staticmethod
    def mutate_hmmer(j: Dict[str, Any], mut: str) -> bool:
        if mut.startswith("schema:"):
            val = mut.split(":")[1]
            if val == "missing":
                j.pop("schema")
            else:
                j["schema"] = int(val)
        elif mut == "null_evalue":
            j["max evalue"] = None
        elif mut == "int_score":
            j["min score"] = 25
        elif mut == "hits_not_list":
            j["hits"] = {"a": 1}
        elif mut == "empty_json":
            j.clear()
        elif mut in ("drop_hit_key", "extra_hit_key", "inverted_hit"):
            if not j["hits"]:
                return False
            if mut == "drop_hit_key":
                j["hits"][0].pop("label")
            elif mut == "extra_hit_key":
                j["hits"][0]["surplus"] = "x"
            else:
                j["hits"][0]["protein_start"] = j["hits"][0]["protein_end"]
        return True

    # ---- TTA
    def tta_record(self, case: Dict[str, Any], record_id: Optional[str] = None) -> Any:
        from antismash.common.secmet.test.helpers import DummyCDS, DummyRecord, DummySubRegion
        from antismash.common.secmet.locations import CompoundLocation, FeatureLocation
        feats = []
        for g in case["genes"]:
            if g.get("parts"):
                location = CompoundLocation([FeatureLocation(a, b, g["strand"]) for a, b in g["parts"]])
                feats.append(DummyCDS(location=location, locus_tag=g["name"], translation="M" * 5))
            else:
                feats.append(DummyCDS(g["lo"], g["hi"], g["strand"], locus_tag=g["name"]))
        seq = case["seq"]
        if record_id and record_id != case["record_id"]:
            seq = seq[::-1]        # another record: same length and GC content, other codons
        rec = renamed(DummyRecord(features=feats, seq=seq, record_id=record_id or case["record_id"]), case["record_id"])
        rec.add_subregion(DummySubRegion(0, len(case["seq"])))
        rec.create_regions()
        return rec

    def impl_tta(self, case: Dict[str, Any]) -> Dict[str, Any]:
        import orjson
        from antismash.modules import tta
        opts = config(tta_threshold=fl(case["t0"]))
        x = tta.detect(self.tta_record(case), opts)
        j_in = orjson.loads(orjson.dumps(x.to_json()))
        mut = case.get("mut")
        cur_record_id = case["record_id"]
        if mut:
            if mut.startswith("schema:"):
                j_in["schema_version"] = int(mut.split(":")[1])
            elif mut == "record_id":
                cur_record_id += "_0"
            elif mut == "empty_json":
                j_in.clear()
        # the codons and GC content of the record the results are offered to
        rec0 = self.tta_record(case, cur_record_id)
        everything = tta.detect(rec0, config(tta_threshold=0.0))
        all_codons = [loc_obs(f.location) for f in everything.features]
        gc = rec0.get_gc_content()
        obs: Dict[str, Any] = {"json_in": to_wire(j_in), "mutated": bool(mut), "gc": dec_of(gc), "all_codons": all_codons,
                               "ctx": {"record_id": cur_record_id, "cds_names": [], "original_id": case["record_id"]}, "steps": [],
                               "n_codons": len(all_codons)}
        from antismash import main
        name = "antismash.modules.tta"
        module_results: Dict[str, Any] = {name: j_in}
        for step in case["steps"]:
            mode = step.get("mode", "run")
            config(tta_threshold=fl(step["threshold"]))
            rec = self.tta_record(case, cur_record_id)
            entry: Dict[str, Any] = {}
            seen: Dict[str, Any] = {"outcome": "none", "called": False, "regenerated": None}

            def regen(previous: Any, record: Any, options: Any) -> Any:
                try:
                    seen["regenerated"] = tta.regenerate_previous_results(orjson.loads(orjson.dumps(previous)), record, options)
                except Exception as exc:
                    seen["outcome"] = outcome_of(exc)
                    raise
                seen["outcome"] = "discard" if seen["regenerated"] is None else "reuse"
                return seen["regenerated"]

            def run(record: Any, results: Any, options: Any) -> Any:
                seen["called"] = True
                return tta.run_on_record(record, results, options)
            proxy = SimpleNamespace(__name__=name, regenerate_previous_results=regen, is_enabled=tta.is_enabled,
                                    run_on_record=run)
            options = SimpleNamespace(tta_threshold=fl(step["threshold"]), tta_enabled=mode != "disabled", minimal=True,
                                      all_enabled_modules=[] if mode == "not_in_all" else [proxy])
            try:
                main.run_module(rec, proxy, options, module_results, {})
            except Exception as exc:  # pylint: disable=broad-except
                entry["outcome"] = seen["outcome"] if seen["outcome"].startswith("refuse") else outcome_of(exc)
                obs["steps"].append(entry)
                break
            final = module_results.get(name)
            entry["outcome"] = seen["outcome"]
            entry["called"] = seen["called"]
            entry["ran"] = seen["called"] and final is not seen["regenerated"]
            if final is None:
                entry["json"] = None
                entry["features"] = []
                entry["equals_fresh"] = True
                module_results = {}
            else:
                try:
                    final.add_to_record(rec)
                    entry["features"] = [loc_obs(f.location) for f in final.features]
                except ValueError as exc:
                    entry["features"] = outcome_of(exc)
                entry["json"] = to_wire(orjson.loads(orjson.dumps(final.to_json())))
                # what a fresh run under these options stores (only comparable for results of this record)
                fresh = tta.detect(self.tta_record(case, cur_record_id), SimpleNamespace(tta_threshold=fl(step["threshold"])))
                entry["equals_fresh"] = final.record_id != rec.id \
                    or orjson.dumps(fresh.to_json()) == orjson.dumps(final.to_json())
                module_results = {name: orjson.loads(orjson.dumps(final.to_json()))}
            obs["steps"].append(entry)
        config()
        return obs

    # ---- the results file
    @staticmethod
    def file_record(rid: str) -> Any:
        from antismash.common.secmet.test.helpers import DummyCDS, DummyRecord
        feats = [DummyCDS(30 + 130 * i, 120 + 130 * i, 1 if i != 1 else -1, locus_tag=f"gene{i}", translation="MAGIC" * 5 + "MAGI")
                 for i in range(3)]
        rec = DummyRecord(features=feats, seq="ATGCGC" * 80, record_id=rid)
        rec._record.annotations["molecule_type"] = "DNA"   # pylint: disable=protected-access
        return rec

    def impl_resfile(self, case: Dict[str, Any]) -> Dict[str, Any]:
        import bz2
        import os
        import tempfile
        import orjson
        from antismash import main
        from antismash.common import serialiser
        from antismash.common.hmmer import HmmerHit, HmmerResults
        from antismash.common.secmet.locations import FeatureLocation
        from antismash.config import get_config, update_config
        from antismash.detection import full_hmmer
        from antismash.modules import tta
        from antismash.modules.tta.tta import TTAResults
        records, results = [], []
        for spec in case["records"]:
            rec = self.file_record(spec["id"])
            if spec["original_id"]:
                rec.original_id = spec["original_id"]
            mods: Dict[str, Any] = {}
            if spec["tta"] is not None:
                res = TTAResults(rec.id, rec.get_gc_content(), fl(spec["tta_threshold"]))
                for gene, off in spec["tta"]:
                    cds = rec.get_cds_by_name(f"gene{gene}")
                    start = cds.location.start + off
                    res.new_feature_from_location(FeatureLocation(start, start + 3, cds.location.strand))
                mods["antismash.modules.tta"] = res
            if spec["none_entry"]:
                mods["antismash.modules.lanthipeptides"] = None
            if spec["hmmer"] is not None:
                hits = []
                for h in spec["hmmer"]:
                    cds = rec.get_cds_by_name(f"gene{h['gene']}")
                    location = cds.get_sub_location_from_protein_coordinates(h["ps"], h["pe"])
                    hits.append(HmmerHit(location=str(location), label=h["label"], locus_tag=cds.get_name(), domain=h["domain"],
                                         evalue=fl(h["evalue"]), score=fl(h["score"]), identifier=h["identifier"],
                                         description=h["description"], protein_start=h["ps"], protein_end=h["pe"],
                                         translation=cds.translation[h["ps"]:h["pe"]]))
                mods["antismash.detection.full_hmmer"] = HmmerResults(rec.id, full_hmmer.MAX_EVALUE, full_hmmer.MIN_SCORE,
                                                                      "/data/pfam/35.0/Pfam-A.hmm", "fullhmmer", hits)
            records.append(rec)
            results.append(mods)
        timings = {r.id: {"antismash.modules.tta": 0.25} for r in records} if case["timings"] else None
        original = serialiser.AntismashResults(case["input_file"], records, results, case["version"], timings, taxon=case["taxon"])
        tmp = tempfile.mkdtemp(prefix="c11_")
        path = os.path.join(tmp, "results.json")
        obs: Dict[str, Any] = {"n_areas": sum(len(m) for m in results)}
        try:
            original.write_to_file(path)
            with open(path, "rb") as handle:
                first_bytes = handle.read()
            raw = orjson.loads(first_bytes)
            original_modules = [orjson.dumps(r["modules"]) for r in raw["records"]]
            mut = case.get("mut")
            if mut:
                self.mutate_file(raw, mut)
            obs["mutated"] = bool(mut)
            obs["json_in"] = to_wire(raw)
            data = orjson.dumps(raw)
            if case["bz2"]:
                path += ".bz2"
                with bz2.open(path, "wb") as handle:
                    handle.write(data)
            else:
                with open(path, "wb") as handle:
                    handle.write(data)
            obs["constants"] = [serialiser.AntismashResults.SCHEMA_VERSION,
                                sorted(serialiser.AntismashResults.COMPATIBLE_SCHEMAS[serialiser.AntismashResults.SCHEMA_VERSION],
                                       reverse=True)]
            options = config(taxon=case["cur_taxon"])
            try:
                if case["flow"] == "read_data":
                    update_config({"reuse_results": path})
                    loaded = main.read_data(None, get_config())
                    obs["taxon"] = get_config().taxon
                else:
                    loaded = serialiser.AntismashResults.from_file(path)
                    obs["taxon"] = loaded.taxon
            except Exception as exc:  # pylint: disable=broad-except
                obs["outcome"] = outcome_of(exc)
                obs["msg"] = str(exc)[:160]
                return obs
            obs["outcome"] = "reuse"
            obs["version"], obs["input_file"] = loaded.version, loaded.input_file
            obs["modules"] = [to_wire(orjson.loads(orjson.dumps(m))) for m in loaded.results]
            # regenerate every module's results against the loaded records and save again
            stable = True
            try:
                regenerated = []
                for rec, mods, spec in zip(loaded.records, loaded.results, case["records"]):
                    options = config(taxon=obs["taxon"], tta_threshold=fl(spec["tta_threshold"]))
                    new: Dict[str, Any] = {}
                    for name, stored in mods.items():
                        module = tta if name.endswith(".tta") else full_hmmer
                        new[name] = module.regenerate_previous_results(stored, rec, options)
                    regenerated.append(new)
                again = serialiser.AntismashResults(loaded.input_file, loaded.records, regenerated, loaded.version,
                                                    taxon=loaded.taxon).to_json()
                again = orjson.loads(orjson.dumps(again))
                obs["rewritten_schema"] = again["schema"]
                if not mut:
                    stable = [orjson.dumps(r["modules"]) for r in again["records"]] == original_modules \
                        and again["taxon"] == case["taxon"] and again["version"] == case["version"] \
                        and again["input_file"] == case["input_file"]
            except Exception as exc:  # pylint: disable=broad-except
                stable = False
                obs["later_failure"] = f"regenerating from the loaded file: {type(exc).__name__}: {exc}"[:200]
            obs["bytes_stable"] = stable
            return obs
        finally:
            update_config({"reuse_results": None})
            config()
            for name in os.listdir(tmp):
                os.unlink(os.path.join(tmp, name))
            os.rmdir(tmp)

    @staticmethod
    def mutate_file(raw: Dict[str, Any], mut: str) -> None:
        kind, _, val = mut.partition(":")
        if kind == "schema":
            if val == "missing":
                raw.pop("schema")
            elif val == "null":
                raw["schema"] = None
            elif val == "str":
                raw["schema"] = "4"
            elif val == "true":
                raw["schema"] = True
            else:
                raw["schema"] = int(val)
        elif kind == "renamed_key":
            raw.pop("schema")
            raw["schema_version"] = int(val)
        elif kind == "both_keys":
            raw["schema"] = int(val)
            raw["schema_version"] = 9 - int(val)
        elif mut == "drop_version":
            raw.pop("version")
        elif mut == "drop_input_file":
            raw.pop("input_file")
        elif mut == "drop_taxon":
            raw.pop("taxon")
        elif mut == "drop_modules":
            raw["records"][-1].pop("modules")
        elif mut == "drop_records":
            raw.pop("records")

    # ---- main.run_module
    def impl_runmod(self, case: Dict[str, Any]) -> Dict[str, Any]:
        from antismash import main
        from antismash.modules.tta.tta import TTAResults
        calls: Dict[str, Any] = {"ran_with": None}
        regenerated: Any = "regenerated"
        if case["regen"] == "reuse_empty":
            regenerated = TTAResults("rec", 0.5, 0.65)      # no codons: len() == 0, falsy

        def regen(_prev: Any, _record: Any, _options: Any) -> Any:
            if case["regen"] in ("reuse", "reuse_empty"):
                return regenerated
            if case["regen"] == "discard":
                return None
            raise ValueError("refused")

        class Ran(TTAResults):
            def __init__(self, arg: Any) -> None:
                super().__init__("rec", 0.5, 0.65)
                self.arg = arg

        def run(_record: Any, results: Any, _options: Any) -> Any:
            calls["ran_with"] = "None" if results is None else "regenerated"
            return Ran(results)
        module = SimpleNamespace(__name__="stub.module", regenerate_previous_results=regen,
                                 is_enabled=lambda _o: case["enabled"], run_on_record=run)
        options = SimpleNamespace(all_enabled_modules=[module] if case["in_all"] else [])
        results: Dict[str, Any] = {"stub.module": {"x": 1}} if case["has_prev"] else {}
        # main.run_module asserts ModuleResults instances: use a ModuleResults subclass for "regenerated"
        if case["regen"] == "reuse":
            from antismash.common.module_results import ModuleResults

            class Plain(ModuleResults):
                pass
            regenerated = Plain("rec")
        try:
            main.run_module(None, module, options, results, {})
        except ValueError:
            return {"outcome": "refuse:value-error"}
        stored = results.get("stub.module")
        if stored is None:
            tag = None
        elif isinstance(stored, Ran):
            tag = "ran(regenerated)" if stored.arg is not None else "ran(None)"
        else:
            tag = "regenerated"
        return {"outcome": "ok", "stored": tag, "ran_with": calls["ran_with"]}

    # ------------------------------------------------------------------ driver + judgement
    def driver_line(self, case: Dict[str, Any], obs: Dict[str, Any]) -> Optional[Dict[str, Any]]:
        if "skip" in obs or "err" in obs:
            return None
        kind = case["kind"]
        if kind == "runmod":
            regen = "reuse" if case["regen"] == "reuse_empty" else case["regen"]
            return {"kind": kind, "has_prev": case["has_prev"], "regen": regen, "in_all": case["in_all"],
                    "enabled": case["enabled"]}
        if kind == "sideopt":
            return {"kind": kind, "json": obs["json_in"], "rec": obs["rec"], "saved": obs["saved"], "cur": obs["cur"]}
        line: Dict[str, Any] = {"kind": kind, "json": obs["json_in"], "ctx": obs.get("ctx", {})}
        if kind == "sideload" and "requested" in obs:
            line["requested"] = obs["requested"]
        if kind == "hmmdet":
            line["opts"] = obs["opts"]
            line.update(obs.get("produced", {}))
        elif kind == "hmmer":
            line.update({"max_evalue": obs["max_evalue"], "min_score": obs["min_score"], "op": case["op"]})
            if case["op"] == "regenerate":
                line["pfam"] = obs["pfam"]
        elif kind == "tta":
            line.update({"gc": obs["gc"], "all_codons": obs["all_codons"],
                         "steps": [{"threshold": dec_of(fl(s["threshold"])), "record_id": obs["ctx"]["record_id"],
                                    "in_all": s.get("mode", "run") != "not_in_all",
                                    "enabled": s.get("mode", "run") != "disabled"} for s in case["steps"]]})
        return line

    def judge(self, case: Dict[str, Any], obs: Dict[str, Any], drv: Optional[Dict[str, Any]]) -> Judgement:
        kind = case["kind"]
        if "skip" in obs:
            return Judgement(True, True, in_scope=False, tags=(kind, "skipped"), detail=obs["skip"])
        if "err" in obs:
            return Judgement(False, False, tags=(kind, "harness-error"),
                             detail=f"adapter raised {obs['err']}: {obs.get('_trace', '')[-300:]}")
        assert drv is not None
        if "err" in drv:
            return Judgement(False, True, tags=(kind,), detail=f"driver error {drv['err']}")
        if kind == "tta":
            return self.judge_tta(case, obs, drv)
        if kind == "runmod":
            corr = obs["outcome"] == drv["outcome"] and (obs["outcome"] != "ok" or (
                obs["stored"] == drv["stored"] and obs["ran_with"] == drv["ran_with"]))
            spec_ok = obs["outcome"] != "ok" or obs["stored"] == drv["spec_stored"]
            return Judgement(corr, spec_ok, nontrivial=case["has_prev"], tags=(kind, case["regen"]),
                             detail="" if corr and spec_ok else f"run_module: implementation {obs} vs model {drv}")
        if kind == "resfile":
            return self.judge_resfile(case, obs, drv)
        mutated = obs["mutated"]
        outcome = obs.get("outcome")
        corr = outcome == drv["outcome"]
        detail = ""
        if not corr:
            detail = f"decision: implementation {outcome} ({obs.get('msg', '')}) vs model {drv['outcome']}"
        if corr and outcome == "reuse":
            if obs["json_out"] != drv["json"]:
                corr = False
                detail = "regenerated JSON differs: " + self.first_diff(obs["json_out"], drv["json"])
            if corr and kind == "sideopt" and obs.get("final") != drv.get("final"):
                corr = False
                detail = "run_on_record after regeneration: " + self.first_diff(obs.get("final"), drv.get("final"))
            if corr and "domain_ids" in obs and obs["domain_ids"] != drv.get("domain_ids"):
                corr = False
                detail = f"feature identifiers: implementation {obs['domain_ids'][:6]} vs model {drv.get('domain_ids', [])[:6]}"
            for key in ("protos", "areas", "annotations"):
                if corr and key in obs:
                    mine = drv.get(key) if key == "protos" else {"subregions": drv.get("subregions"),
                                                                "protoclusters": drv.get("protoclusters")}
                    if key == "annotations":
                        mine = sorted(drv.get(key, []))
                    if obs[key] != mine:
                        corr = False
                        detail = f"{key}: implementation {obs[key]} vs model {mine}"
            if corr and kind == "hmmer" and obs.get("hits_out") != drv.get("reference"):
                # the reused hit list must be the stored hits that satisfy the current thresholds
                pass
        spec_ok = True
        known = None
        if kind == "sideopt" and obs["saved_rec_id"] == obs["rec"]["id"] and obs["stored"] != drv.get("stored"):
            corr = False
            detail = detail or "annotations stored by run_on_record: " + self.first_diff(obs["stored"], drv.get("stored"))
        if kind == "hmmdet" and "rule_names" in drv and sorted(drv["rule_names"]) != obs["impl_rule_names"]:
            corr = False
            spec_ok = False
            detail = (f"get_ruleset(options) does not hold the rules of strictness {case['cur']['strictness']!r} with limits "
                      f"{case['cur']['limit']}: {len(obs['impl_rule_names'])} rule names instead of {len(drv['rule_names'])}")
        if kind == "hmmdet" and "saved_under" in drv:
            if "fresh_model" in drv and obs["produced"]["fresh_json"] != drv["fresh_model"]:
                corr = False
                detail = detail or ("results stored for a gene-less record: "
                                    + self.first_diff(obs["produced"]["fresh_json"], drv["fresh_model"]))
            if not drv["saved_under"]:
                spec_ok = False
                detail = ("the JSON written by run_on_record does not state the settings it was produced under "
                          "(rule names, strictness, multipliers of the rule set)")
        if kind == "hmmer" and "run" in obs:
            if obs["run"] != drv.get("run"):
                corr = False
                detail = detail or f"run_on_record after regeneration: implementation {obs['run']} vs model {drv.get('run')}"
            pf = case.get("pfam") or {"stored": "35.0", "installed": ["35.0"], "full": "latest", "cluster": "latest"}
            wanted = pf["full" if case["module"] == "full_hmmer" else "cluster"]
            newest = sorted(pf["installed"], key=lambda v: (tuple(int(x) for x in v.split(".")), v))[-1]
            wanted = newest if wanted == "latest" else wanted
            if obs["run"] == "keep" and not drv.get("keep_allowed", True) and drv["outcome"] == "reuse":
                spec_ok = False
                detail = ("PFAM results of another database version were kept although this module's option asks for "
                          f"{wanted} (stored {pf['stored']})")
            elif outcome == "reuse" and obs["run"] != "keep" and wanted == pf["stored"]:
                spec_ok = False
                detail = (f"PFAM results of the requested version {wanted} were thrown away ({obs['run']})")
            elif obs["run"].startswith("rerun:") and obs["run"] != "rerun:" + wanted:
                spec_ok = False
                detail = f"searched again in {obs['run']} although this module's option asks for {wanted}"
        if kind == "hmmer" and "then_outcome" in obs:
            cur_t = [dec_of(fl(case["cur"]["max_evalue"])), dec_of(fl(case["cur"]["min_score"]))]
            if obs["resaved_thresholds"] != cur_t:
                spec_ok = False
                detail = detail or (f"the re-saved results state the thresholds {obs['resaved_thresholds']} although they were "
                                    f"filtered with {cur_t}")
            lenient = fl(case["then"]["max_evalue"]) > fl(case["cur"]["max_evalue"]) \
                or fl(case["then"]["min_score"]) < fl(case["cur"]["min_score"])
            if lenient and obs["then_outcome"] == "reuse":
                spec_ok = False
                detail = detail or ("results filtered at " + str(case["cur"]) + " were accepted by a later run at the more lenient "
                                    + str(case["then"]) + " instead of being dropped")
            if not lenient and obs["then_outcome"] != "reuse":
                spec_ok = False
                detail = detail or f"a later run at thresholds not more lenient did not reuse the re-saved results: {obs['then_outcome']}"
        failed_before = not spec_ok
        may = drv.get("may_reuse", True)
        if outcome == "reuse":
            if not may:
                spec_ok = False
                detail = detail or "results reused although they were saved under different settings/schema/record"
            if not obs.get("bytes_stable", True) or (not mutated and not obs.get("same_as_input", True)):
                spec_ok = False
                detail = detail or ("regenerated results do not save to byte-identical JSON "
                                    + obs.get("later_failure", ""))
            if obs.get("features_equal") is False and not mutated:
                spec_ok = False
                detail = detail or ("regenerated results add different features: "
                                    + obs.get("feature_diff", obs.get("feature_error", "")))
            if obs.get("feature_order_equal") is False and not mutated:
                spec_ok = False
                detail = detail or "the regenerated results add the domain features in another order than the original run"
            if obs.get("annotations_as_original") is False and not mutated:
                spec_ok = False
                detail = detail or ("the regenerated results put other gene annotations on the record than the original "
                                    "run did" + (" (record reloaded from its JSON and stripped first)" if case.get("reload") else ""))
            if obs.get("attached_bytes_equal") is False and not mutated:
                spec_ok = False
                detail = detail or "JSON written after adding the protoclusters to the record differs"
            if kind == "hmmer" and obs.get("hits_out") != drv.get("fresh"):
                # the reused hits must be what a fresh run under the current thresholds reports
                spec_ok = False
                detail = detail or "reused hits differ from the hits a fresh run under the current thresholds reports"
                if drv.get("on_boundary") and obs.get("hits_out") == drv.get("reference"):
                    known = "KF-C11-refilter-boundary"
        elif not mutated:
            spec_ok = False
            detail = detail or f"unchanged settings but the results were not reused: {outcome} {obs.get('msg', '')}"
        in_scope = bool(drv.get("valid", True)) if outcome == "reuse" else True
        size = obs.get("n_modules", 0) + obs.get("n_clusters", 0) + obs.get("n_areas", 0) + obs.get("n_hits", 0)
        if kind == "hmmresult":
            size = len(case["hit"][5])
        tags = (kind, kind + ":" + str(outcome).split(":")[0], "mutated" if mutated else "same-settings")
        if case.get("mut"):
            tags += (f"{kind}:mut:{case['mut'].split(':')[0]}",)
        if case.get("request"):
            tags += (f"{kind}:request:{case['request']}",)
        if kind == "hmmdet":
            tags += (f"hmmdet:via:{case.get('via', 'direct')}" + (":no-genes" if not case["record"]["genes"] else ""),)
            if case.get("reload"):
                tags += ("hmmdet:reloaded-and-stripped",)
            if obs.get("n_outside") and not obs.get("n_protos"):
                tags += ("hmmdet:outside-hits-without-protocluster",)
        if known and failed_before:
            known = None         # another violation besides the recorded one
        if known:
            in_scope = False     # outside the hypothesis of hmmer_refilter_matches_fresh_partial
        return Judgement(corr, spec_ok, in_scope=in_scope, known=known, nontrivial=size > 0, tags=tags, detail=detail)

    def judge_resfile(self, case: Dict[str, Any], obs: Dict[str, Any], drv: Dict[str, Any]) -> Judgement:
        outcome = obs["outcome"]
        corr = outcome == drv["outcome"]
        detail = "" if corr else f"decision: implementation {outcome} ({obs.get('msg', '')}) vs model {drv['outcome']}"
        if obs["constants"] != [drv["schema_current"], drv["schema_compatible"]]:
            corr = False
            detail = detail or f"schema constants: code {obs['constants']} vs model {drv['schema_current']}, {drv['schema_compatible']}"
        if corr and outcome == "reuse":
            for key in ("version", "input_file", "taxon", "modules"):
                if obs[key] != drv[key]:
                    corr = False
                    detail = detail or f"{key}: implementation {str(obs[key])[:200]} vs model {str(drv[key])[:200]}"
            if "rewritten_schema" in obs and obs["rewritten_schema"] != drv["rewritten_schema"]:
                corr = False
                detail = detail or f"schema written: {obs['rewritten_schema']} vs model {drv['rewritten_schema']}"
        spec_ok = True
        if outcome == "reuse":
            if not drv["may_reuse"]:
                spec_ok = False
                detail = ("a results file written under another (incompatible) results schema was read and its results "
                          "reinterpreted: " + detail)
            if not obs.get("bytes_stable", True):
                spec_ok = False
                detail = detail or ("module results regenerated from the file do not save to the same JSON "
                                    + obs.get("later_failure", ""))
        elif not obs["mutated"]:
            spec_ok = False
            detail = detail or f"an unchanged results file was not read back: {outcome} {obs.get('msg', '')}"
        tags = ("resfile", "resfile:" + outcome.split(":")[0], "mutated" if obs["mutated"] else "same-settings",
                "resfile:" + case["flow"])
        if case.get("mut"):
            tags += ("resfile:mut:" + case["mut"],)
        return Judgement(corr, spec_ok, nontrivial=obs["n_areas"] > 0, tags=tags, detail=detail)

    def judge_tta(self, case: Dict[str, Any], obs: Dict[str, Any], drv: Dict[str, Any]) -> Judgement:
        corr, spec_ok, detail = True, True, ""
        msteps = drv["steps"]
        foreign = obs["ctx"]["record_id"] != case["record_id"] and case.get("mut") == "record_id"
        for i, step in enumerate(obs["steps"]):
            if foreign and step["outcome"] == "reuse" and "json" in step:
                if step["called"] and not step["ran"]:
                    spec_ok = False
                    detail = detail or f"step {i}: TTA results saved for another record were kept by run_on_record"
                elif not step["called"] and step["json"] is not None and step["features"] != "refuse:value-error":
                    spec_ok = False
                    detail = detail or f"step {i}: TTA results saved for another record were added to this record"
            if step.get("ran"):
                foreign = False
            if "json" in step and not step["equals_fresh"]:
                spec_ok = False
                detail = detail or (f"step {i}: results after {step['outcome']} differ from a fresh run under the "
                                    f"current threshold: {step}")[:600]
            if step["outcome"] == "reuse" and "json" in step and step["json"] is None:
                spec_ok = False
                detail = detail or f"step {i}: results were regenerated but run_module did not keep them"
            if step["outcome"] == "reuse" and i < len(msteps) and msteps[i].get("may_reuse") is False:
                spec_ok = False
                detail = detail or f"step {i}: results reused across a schema change"
            if i < len(msteps) and step["outcome"] != msteps[i]["outcome"]:
                break   # histories diverge here; later steps are not comparable
        for i, step in enumerate(obs["steps"]):
            if i >= len(msteps):
                corr, detail = False, detail or "model stopped early"
                break
            m = msteps[i]
            if step["outcome"] != m["outcome"]:
                corr = False
                detail = detail or f"step {i}: implementation {step['outcome']} vs model {m['outcome']}"
                break
            if "json" not in step:
                break
            if step["ran"] != m["ran"] or step["json"] != m["json"] or step["features"] != m["features"] \
                    or step["called"] != m["called"]:
                corr = False
                detail = detail or f"step {i}: implementation {step} vs model {m}"[:800]
                break
            if not m["reference_ok"]:
                spec_ok = False
                detail = detail or f"step {i}: model result differs from the reference of the spec"
        outcomes = tuple(sorted({"tta:" + s["outcome"].split(":")[0] for s in obs["steps"]}
                                | {"tta:mode:" + s.get("mode", "run") for s in case["steps"]}))
        return Judgement(corr, spec_ok, nontrivial=obs["n_codons"] > 0, tags=("tta",) + outcomes
                         + (("mutated",) if obs["mutated"] else ("same-settings",)), detail=detail)

    @staticmethod
    def first_diff(a: Any, b: Any, path: str = "$") -> str:
        if type(a) is not type(b):
            return f"{path}: {a!r} vs {b!r}"[:300]
        if isinstance(a, dict):
            if "o" in a and "o" in b:
                ka, kb = [k for k, _ in a["o"]], [k for k, _ in b["o"]]
                if ka != kb:
                    return f"{path}: keys {ka} vs {kb}"[:300]
                for (k, va), (_, vb) in zip(a["o"], b["o"]):
                    if va != vb:
                        return C11.first_diff(va, vb, f"{path}.{k}")
            return f"{path}: {a!r} vs {b!r}"[:300]
        if isinstance(a, list):
            if len(a) != len(b):
                return f"{path}: lengths {len(a)} vs {len(b)}"
            for i, (x, y) in enumerate(zip(a, b)):
                if x != y:
                    return C11.first_diff(x, y, f"{path}[{i}]")
        return f"{path}: {a!r} vs {b!r}"[:300]

    # ------------------------------------------------------------------ shrinking
    def shrink(self, case: Dict[str, Any]) -> Iterator[Dict[str, Any]]:
        kind = case["kind"]
        if kind == "hmmresult":
            hit = case["hit"]
            for i in range(len(hit[5])):
                yield dict(case, hit=hit[:5] + [hit[5][:i] + hit[5][i + 1:]])
            for i, kid in enumerate(hit[5]):
                if kid[5]:
                    yield dict(case, hit=hit[:5] + [hit[5][:i] + [kid[:5] + [[]]] + hit[5][i + 1:]])
        elif kind == "nrpspks":
            genes = case["genes"]
            for i in range(len(genes)):
                if len(genes) > 1:
                    yield dict(case, genes=genes[:i] + genes[i + 1:])
            for i, g in enumerate(genes):
                for key in ("domains", "motifs"):
                    for k in range(len(g[key])):
                        g2 = dict(g, **{key: g[key][:k] + g[key][k + 1:]})
                        yield dict(case, genes=genes[:i] + [g2] + genes[i + 1:])
        elif kind == "hmmdet":
            for i in range(len(case["clusters"])):
                if len(case["clusters"]) > 1:
                    yield dict(case, clusters=case["clusters"][:i] + case["clusters"][i + 1:])
            for name in list(case["cdsres"]):
                rest = {k: v for k, v in case["cdsres"].items() if k != name}
                yield dict(case, cdsres=rest, outside=[n for n in case["outside"] if n != name])
            for name, res in case["cdsres"].items():
                for product, names in res["defs"].items():
                    for k in range(len(names)):
                        defs = dict(res["defs"], **{product: names[:k] + names[k + 1:]})
                        yield dict(case, cdsres=dict(case["cdsres"], **{name: dict(res, defs=defs)}))
                if len(res["domains"]) > 1:
                    for k in range(len(res["domains"])):
                        yield dict(case, cdsres=dict(case["cdsres"], **{
                            name: dict(res, domains=res["domains"][:k] + res["domains"][k + 1:])}))
        elif kind == "sideload":
            for key in ("subs", "protos"):
                for i in range(len(case[key])):
                    yield dict(case, **{key: case[key][:i] + case[key][i + 1:]})
        elif kind == "hmmer":
            for i in range(len(case["hits"])):
                yield dict(case, hits=case["hits"][:i] + case["hits"][i + 1:])
        elif kind == "sideopt":
            for which in ("saved", "cur"):
                o = case[which]
                other = "cur" if which == "saved" else "saved"
                for key, empty in (("files", []), ("simple", None)):
                    if o[key] and case[other][key] == o[key]:
                        yield dict(case, **{which: dict(o, **{key: empty}), other: dict(case[other], **{key: empty})})
                    elif o[key]:
                        yield dict(case, **{which: dict(o, **{key: empty})})
                for i in range(len(o["markers"])):
                    m = o["markers"][:i] + o["markers"][i + 1:]
                    if case[other]["markers"] == o["markers"]:
                        yield dict(case, **{which: dict(o, markers=m), other: dict(case[other], markers=m)})
            if case["record"]["original_id"]:
                yield dict(case, record=dict(case["record"], original_id=None))
        elif kind == "resfile":
            for i in range(len(case["records"])):
                if len(case["records"]) > 1:
                    yield dict(case, records=case["records"][:i] + case["records"][i + 1:])
            for i, r in enumerate(case["records"]):
                for key in ("tta", "hmmer"):
                    if r[key]:
                        yield dict(case, records=case["records"][:i] + [dict(r, **{key: []})] + case["records"][i + 1:])
            if case["bz2"]:
                yield dict(case, bz2=False)
        elif kind == "tta":
            for i in range(len(case["steps"])):
                if len(case["steps"]) > 1:
                    yield dict(case, steps=case["steps"][:i] + case["steps"][i + 1:])
            for i in range(len(case["genes"])):
                if len(case["genes"]) > 1:
                    yield dict(case, genes=case["genes"][:i] + case["genes"][i + 1:])

    def extra_checks(self, rng: random.Random, tier: str, deep: bool) -> List[Failure]:
        config()
        return []


PROP = C11
