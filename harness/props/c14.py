"""C14 — NRPS/PKS modules partition a gene's domains in order and obey the module rules.

Implementation under test (all called in-process, on real objects):
  * `build_modules_for_cds(domains, name)`                        kind "build"
  * `Module.from_json(m.to_json())` for every module produced      (field `reload` of each module)
  * `Module.from_json` on arbitrary component sequences            kind "replay"
  * `combine_modules(current, previous)` on adjacent gene pairs    kind "pair"
  * the caller loop of `generate_domains` (HMMER parts patched)    kind "chain"
  * `classify` and every `Component.is_*` predicate                kind "label"  (whole alphabet)
"""
from __future__ import annotations

import itertools
import json
import random
from typing import Any, Dict, Iterator, List, Optional, Tuple

from ..framework import Judgement, Property, err_kind

MI = "antismash/detection/nrps_pks_domains/module_identification.py"
DI = "antismash/detection/nrps_pks_domains/domain_identification.py"

FLAGS = ("complete", "starter_module", "termination", "iterative", "trans_at", "pks", "nrps", "start", "stop")
STATE = ("comps", "first", "starter", "loader", "mods", "carrier", "end", "others", "unamb", "sil",
         "terminated", "coa") + FLAGS

KS_SUBTYPES = [[], [], ["Trans-AT-KS"], ["Trans-AT-KS"], ["Iterative-KS"], ["Modular-KS"],
               ["Trans-AT-KS", "KS_clade_7"], ["Hybrid-KS"]]


def _mi() -> Any:
    from antismash.detection.nrps_pks_domains import module_identification
    return module_identification


def make_domain(d: List[Any]) -> Any:
    """[label, [subtypes], start, end] -> HMMResult whose detailed_names[1:] are the subtypes"""
    from antismash.common.hmmscan_refinement import HMMResult
    label, subs, start, end = d
    inner = None
    for name in reversed(subs):
        inner = HMMResult(name, start, end, 1e-5, 10.0, internal_hits=[inner] if inner else None)
    return HMMResult(label, start, end, 1e-10, 50.0, internal_hits=[inner] if inner else None)


def comp_json(c: Any) -> List[Any]:
    return [c.label, list(c.subtypes), int(c.domain.query_start), int(c.domain.query_end), c.locus]


def _identity_state(m: Any) -> Any:
    ids = {id(c): i for i, c in enumerate(m._components)}  # pylint: disable=protected-access

    def g(c: Any) -> Any:
        return None if c is None else ids.get(id(c), "foreign")
    return (json.dumps([c.to_json() for c in m._components], sort_keys=True), g(m._starter), g(m._loader),
            [g(c) for c in m._modifications], g(m._carrier_protein), g(m._end), [g(c) for c in m._others],
            m._first_in_cds, m._unambiguous_accept)


def reload_status(m: Any) -> Any:
    """True iff Module.from_json(m.to_json()) succeeds and has the identical state"""
    mi = _mi()
    try:
        data = json.loads(json.dumps(m.to_json()))
        again = mi.Module.from_json(data)
    except Exception as exc:  # pylint: disable=broad-except
        return err_kind(exc)
    return _identity_state(again) == _identity_state(m) and again.to_json() == m.to_json()


def mod_json(m: Any) -> Dict[str, Any]:
    opt = lambda c: None if c is None else comp_json(c)  # noqa: E731
    return {
        "comps": [comp_json(c) for c in m._components], "first": bool(m._first_in_cds),
        "starter": opt(m._starter), "loader": opt(m._loader),
        "mods": [comp_json(c) for c in m._modifications], "carrier": opt(m._carrier_protein),
        "end": opt(m._end), "others": [comp_json(c) for c in m._others],
        "unamb": int(m._unambiguous_accept),
        "sil": bool(m._starter is not None and m._starter is m._loader),
        "complete": bool(m.is_complete()), "starter_module": bool(m.is_starter_module()),
        "termination": bool(m.is_termination_module()), "iterative": bool(m.is_iterative()),
        "trans_at": bool(m.is_trans_at()), "pks": bool(m.is_pks()), "nrps": bool(m.is_nrps()),
        "terminated": bool(m.is_terminated()), "coa": bool(m.is_coa_ligase()),
        "start": (int(m.start) if m._components else None), "stop": (int(m.end) if m._components else None),
        "reload": reload_status(m),
    }


def spec_view(mods: List[Dict[str, Any]]) -> List[Dict[str, Any]]:
    return [{"comps": m["comps"], "first": m["first"]} for m in mods]


class C14(Property):
    ID = "C14"
    USES_TABLES = True
    SHAPE = [(MI, q) for q in (
        "ADENYLATIONS", "ACYLTRANSFERASES", "CONDENSATIONS", "ENDS", "KETOSYNTHASES", "MODIFIERS",
        "CARRIER_PROTEINS", "ALTERNATE_STARTERS", "NON_MODULE", "OTHER", "SPECIAL", "FUSED_STARTERS",
        "CLASSIFICATIONS", "DOUBLE_TRANSPORTER_CASES",
        "Component.__init__", "Component.label", "Component.subtype", "Component.subtypes",
        "Component.is_adenylation", "Component.is_acyltransferase", "Component.is_coa_ligase",
        "Component.is_condensation", "Component.is_starter", "Component.is_loader",
        "Component.is_modification", "Component.is_carrier_protein", "Component.is_end",
        "Component.is_ignored", "Component.is_special", "Component.is_fused_starter",
        "Component.is_pks_specific", "Component.is_nrps_specific", "Component.to_json", "Component.from_json",
        "Module.__init__", "Module.to_json", "Module.from_json", "Module.is_pks", "Module.is_nrps",
        "Module.is_coa_ligase", "Module.is_trans_at", "Module.is_iterative", "Module.ensure_suitable",
        "Module.add_component", "Module.is_complete", "Module.is_terminated", "Module.is_termination_module",
        "Module.is_starter_module", "Module.is_empty", "Module.__iter__", "Module.components", "Module.start", "Module.end",
        "classify", "build_modules_for_cds", "CDSModuleInfo", "combine_modules")] + [
        (DI, "generate_domains"),
        ("antismash/common/hmmscan_refinement.py", "HMMResult.detailed_names"),
        ("antismash/common/hmmscan_refinement.py", "HMMResult.__init__"),
        ("antismash/common/hmmscan_refinement.py", "HMMResult.add_internal_hits"),
        ("antismash/common/hmmscan_refinement.py", "HMMResult.overlaps_with"),
        ("antismash/common/hmmscan_refinement.py", "HMMResult.to_json"),
        ("antismash/common/hmmscan_refinement.py", "HMMResult.from_json"),
        ("antismash/common/hmmscan_refinement.py", "HMMResult.__eq__"),
        (DI, "CDSResult.to_json"), (DI, "CDSResult.from_json"), (DI, "NRPSPKSDomains.add_to_record"), (DI, "generate_domain_features"),
        ("antismash/common/secmet/features/cdscollection.py", "_SectionedCDSTuple.__iter__"),
        ("antismash/common/secmet/features/module.py", "ModuleType"),
        ("antismash/common/secmet/features/module.py", "Module.__init__"),
        ("antismash/common/secmet/features/module.py", "Module.to_biopython"),
        ("antismash/common/secmet/features/module.py", "Module.from_biopython"),
    ]
    RULE = ("domain sequences over the full alphabet of the tree under test (every label of CLASSIFICATIONS, "
            "PKS_KS with trans-AT / iterative / other / stacked subtypes): (1) exhaustive strings over a "
            "behavioural alphabet (one representative per class + every specially named label) up to length 3, and "
            "length 4 over that alphabet minus 5 behaviourally redundant labels (thorough, deep), (2) random strings of length <= 30, uniform and grammar-shaped "
            "(plausible modules with perturbations, double-transporter triples, docking domains), with shuffled "
            "input order and tied query starts; gene pairs on both strands (same / different) for combine_modules, "
            "incl. a strided sample (60k) of all pairs of strings up to length 2x3 (thorough); 2-5 gene chains through the real "
            "generate_domains loop (regions, strands, empty genes, motif-only genes); arbitrary component "
            "sequences through Module.from_json; every label through classify and all Component predicates; random "
            "HMMResult trees (depth <= 3, overlapping / touching / disjoint internal hits) through the constructor, "
            "detailed_names, to_json/from_json and Component; a strided enumeration of all ordered pairs of strings "
            "of length <= 2 as two-gene chains on both strands through generate_domains; chains with domain-less "
            "genes, docking-only genes, region borders and strand changes at the cuts; a third of the single-region "
            "chains again on a circular record whose region crosses the origin at one of the gene borders (both strands); kind `feature`: 1-3 genes "
            "through generate_domains + add_to_record, every aSModule feature through to_biopython/from_biopython, "
            "incl. tandem duplicates (2-3 adjacent same-strand genes with identical hits) on both strands. "
            "non-trivial = at least two modules or one complete module (build/replay), a merge that happened or "
            "was refused after passing the strand/emptiness guards (pair), at least one cross-gene merge (chain), a "
            "tree with internal hits (hmm), an incomplete module with a starter/final role (feature)")
    TRUSTED = [
        "HMMResult e-value / bitscore are Python floats, carried as opaque integers in the Hmm model (kind `hmm` "
        "uses integral values); the rest of HMMResult (internal hits, overlap check, detailed_names, JSON) is modelled",
        "Python `is` on components is modelled by a flag set where starter and loader are assigned together",
        "`sorted(..., key=query_start)` is a stable sort (modelled by Lean's stable List.mergeSort)",
        "iteration order of the set DOUBLE_TRANSPORTER_CASES (irrelevant while all cases have one length: "
        "table fact `dt_cases_len` is re-proved on every run)",
        "get_monomer is outside the statement; of the aSModule feature the location, the generic "
        "Feature qualifiers and monomer pairings are not modelled (kind `feature` compares them on the implementation only)",
        "of generate_domain_features the names, loci and the dict keyed by the hit are modelled (domainFeatures / tableOf); "
        "the DNA locations, translations and the DOMAIN_TYPE_MAPPING renaming of `.domain` are exercised only",
        "HMMResult equality/hash as dict key is modelled by equality of (label, subtype chain, start, end); the harness "
        "uses one fixed e-value/bitscore",
        "the order of `region.cds_children` for an origin-crossing region (pre-origin genes first) is secmet's; the model "
        "states it as `regionGenes` and every origin-crossing chain case compares the real order with it",
        "in kind `chain` find_domains / find_subtypes / find_ab_motifs / annotate_domains are patched out "
        "(no HMMER in the sandbox); the loop itself, build and combine are the real code",
    ]

    def __init__(self) -> None:
        self._alpha: Optional[List[str]] = None
        self._classes: Dict[str, List[str]] = {}

    # ------------------------------------------------------------------ alphabet
    def alphabet(self) -> List[str]:
        if self._alpha is None:
            mi = _mi()
            self._classes = {k: sorted(v) for k, v in mi.CLASSIFICATIONS.items()}
            self._alpha = sorted({l for v in mi.CLASSIFICATIONS.values() for l in v})
        return self._alpha

    def behavioural(self) -> List[Tuple[str, List[str]]]:
        """one representative per class + every specially named label (DESIGN §6 C14)"""
        self.alphabet()
        mi = _mi()
        out: List[Tuple[str, List[str]]] = []
        named = ["PKS_KR", "Trans-AT_docking", "CAL_domain", "Condensation_Starter", "SAT", "Thioesterase",
                 "TD", "Epimerization", "Interface"]
        for case in sorted(mi.DOUBLE_TRANSPORTER_CASES):
            named += list(case)
        reps = [v[0] for k, v in sorted(self._classes.items()) if v]
        for l in dict.fromkeys(reps + [n for n in named if n in self.alphabet()]):
            out.append((l, []))
        for ks in sorted(mi.KETOSYNTHASES):
            out.append((ks, []))
            out.append((ks, ["Trans-AT-KS"]))
            out.append((ks, ["Iterative-KS"]))
        seen, uniq = set(), []
        for l, s in out:
            if (l, tuple(s)) not in seen:
                seen.add((l, tuple(s)))
                uniq.append((l, s))
        return uniq

    # ------------------------------------------------------------------ generators
    def rand_symbol(self, rng: random.Random) -> Tuple[str, List[str]]:
        mi = _mi()
        l = rng.choice(self.alphabet())
        subs: List[str] = []
        if l in mi.KETOSYNTHASES:
            subs = list(rng.choice(KS_SUBTYPES))
        elif rng.random() < 0.03:
            subs = [rng.choice(["Trans-AT-KS", "Iterative-KS", "x"])]
        return l, subs

    def rand_tree(self, rng: random.Random, depth: int) -> List[Any]:
        if depth == 0:
            label = rng.choice(self.alphabet()) if rng.random() < 0.9 else "bad-domain-name"
            start = rng.choice([0, 5, 100])
            end = start + rng.choice([1, 10, 200])
        else:
            label = rng.choice(["Trans-AT-KS", "Iterative-KS", "KS_clade_7", "x", "PKS_KS"])
            start, end = 0, 0
        n = 0 if depth >= 3 else rng.choice([0, 0, 1, 1, 1, 1, 2, 3])
        node = [label, start, end, rng.choice([0, 1, 3]), rng.choice([10, 50]), []]
        for _ in range(n):
            child = self.rand_tree(rng, depth + 1)
            if rng.random() < 0.9:      # overlapping the parent (partially or fully)
                child[1] = node[1] + rng.choice([0, 0, 1, -3])
                child[2] = max(child[1] + 1, node[2] + rng.choice([0, 0, -1, 4]))
            else:                       # touching or disjoint: the constructor must refuse
                child[1] = node[2] + rng.choice([0, 1, 7])
                child[2] = child[1] + 5
            # children were generated before their coordinates were fixed: re-place their own children
            self._refit(rng, child)
            node[5].append(child)
        return node

    def _refit(self, rng: random.Random, node: List[Any]) -> None:
        for child in node[5]:
            if rng.random() < 0.93:
                child[1] = node[1]
                child[2] = max(node[1] + 1, node[2] - rng.choice([0, 0, 1]))
                if child[2] <= node[1]:
                    child[2] = node[1] + 1
            else:
                child[1] = node[2]
                child[2] = node[2] + 3
            self._refit(rng, child)

    def cls(self, rng: random.Random, key: str) -> str:
        self.alphabet()
        return rng.choice(self._classes[key])

    def shaped(self, rng: random.Random, n_modules: int) -> List[Tuple[str, List[str]]]:
        """plausible assembly line with perturbations"""
        mi = _mi()
        cases = sorted(mi.DOUBLE_TRANSPORTER_CASES)
        out: List[Tuple[str, List[str]]] = []
        for _ in range(n_modules):
            kind = rng.choice(["nrps", "pks", "transat", "cal", "loaderonly", "junk"])
            if rng.random() < 0.15:
                out.append((self.cls(rng, "ignore"), []))
            if kind == "nrps":
                if rng.random() < 0.8:
                    out.append((self.cls(rng, "C"), []))
                out.append((self.cls(rng, "A"), []))
            elif kind == "pks":
                out.append((self.cls(rng, "KS"), list(rng.choice(KS_SUBTYPES))))
                if rng.random() < 0.85:
                    out.append((self.cls(rng, "AT"), []))
            elif kind == "transat":
                out.append((self.cls(rng, "KS"), ["Trans-AT-KS"] if rng.random() < 0.6 else []))
                if rng.random() < 0.5:
                    out.append(("Trans-AT_docking", []))
            elif kind == "cal":
                out.append((rng.choice(sorted(mi.ALTERNATE_STARTERS)), []))
                if rng.random() < 0.5:
                    out.append((self.cls(rng, rng.choice(["A", "AT"])), []))
            elif kind == "loaderonly":
                out.append((self.cls(rng, rng.choice(["A", "AT"])), []))
            else:
                for _ in range(rng.choice([1, 2])):
                    out.append(self.rand_symbol(rng))
            for _ in range(rng.choice([0, 0, 1, 1, 2, 3])):
                out.append((self.cls(rng, "+") if rng.random() < 0.7 else "PKS_KR", []))
            if rng.random() < 0.1:
                out.append((self.cls(rng, rng.choice([".", "!"])), []))
            if rng.random() < 0.9:
                out.append((self.cls(rng, "CP"), []))
            r = rng.random()
            if r < 0.2 and cases:
                # a second carrier protein, followed (or nearly followed) by a double-transporter pair
                out.append((self.cls(rng, "CP"), []))
                pair = list(rng.choice(cases))
                q = rng.random()
                if q < 0.15:
                    pair = pair[:-1]
                elif q < 0.3:
                    pair = pair[::-1]
                elif q < 0.4:
                    pair.insert(1, self.cls(rng, "ignore"))
                elif q < 0.5:
                    pair.append(self.cls(rng, "CP"))
                    pair += list(rng.choice(cases))
                out += [(p, []) for p in pair]
            elif r < 0.4:
                out.append(("PKS_KR", []))
            if rng.random() < 0.3:
                out.append((self.cls(rng, "E"), []))
                if rng.random() < 0.3:
                    out.append((rng.choice(["TIGR01720", "PKS_KR", self.cls(rng, "!")]), []))
        # perturb: drop / duplicate / swap
        for _ in range(rng.choice([0, 0, 1, 2])):
            if not out:
                break
            i = rng.randrange(len(out))
            op = rng.random()
            if op < 0.35:
                del out[i]
            elif op < 0.6:
                out.insert(i, out[i])
            elif op < 0.8 and i + 1 < len(out):
                out[i], out[i + 1] = out[i + 1], out[i]
            else:
                out.insert(i, self.rand_symbol(rng))
        return out[:30]

    def rand_string(self, rng: random.Random, max_len: int = 30) -> List[Tuple[str, List[str]]]:
        r = rng.random()
        if r < 0.35:
            n = rng.choice([0, 1, 2, 3, 4, 5, 6, 8, 12, 20, max_len])
            return [self.rand_symbol(rng) for _ in range(min(n, max_len))]
        if r < 0.5:
            beh = self.behavioural()
            return [rng.choice(beh) for _ in range(rng.randint(1, min(10, max_len)))]
        return self.shaped(rng, rng.choice([1, 1, 2, 2, 3, 4]))[:max_len]

    @staticmethod
    def place(rng: random.Random, syms: List[Tuple[str, List[str]]], scramble: bool = True) -> List[List[Any]]:
        """assign query positions (non-decreasing, sometimes tied) and sometimes shuffle the input order"""
        out = []
        pos = rng.choice([0, 1, 5])
        for l, s in syms:
            length = rng.choice([5, 30, 200])
            out.append([l, list(s), pos, pos + length])
            pos += 0 if (scramble and rng.random() < 0.06) else rng.choice([1, 10, length, length + 20])
        if scramble and rng.random() < 0.3:
            rng.shuffle(out)
        return out

    def gene(self, rng: random.Random, name: str, strand: int, max_len: int = 8, region: int = 0) -> Dict[str, Any]:
        return {"name": name, "strand": strand, "region": region,
                "domains": self.place(rng, self.rand_string(rng, max_len), scramble=rng.random() < 0.3)}

    def split_pair(self, rng: random.Random) -> Tuple[List[List[Any]], List[List[Any]]]:
        """a plausible assembly line cut in two somewhere (the situation combine_modules exists for)"""
        syms = self.shaped(rng, rng.choice([1, 2, 2, 3]))
        cut = rng.randint(0, len(syms))
        a, b = syms[:cut], syms[cut:]
        return self.place(rng, a, scramble=False), self.place(rng, b, scramble=False)

    @staticmethod
    def over_origin(case: Dict[str, Any], p: int) -> Dict[str, Any]:
        """the same genes (given in the region's genome order) on a circular record whose single region crosses the
           origin after the first len-p genes: those sit before the origin (high coordinates), the last p after it;
           the case then lists the genes in RECORD order (ascending start), as the model expects"""
        genes = [dict(g, region=0) for g in case["genes"]]
        n, width = len(genes), 1000
        length = (n + 1) * width
        pre, post = genes[:n - p], genes[n - p:]
        for i, g in enumerate(post):
            g["start"] = i * width + 100
        for i, g in enumerate(pre):
            g["start"] = (p + 1 + i) * width + 100       # slot p stays free: the region does not cover the whole circle
        return {"kind": "chain", "genes": post + pre, "cross": (p + 1) * width, "length": length}

    def cases(self, rng: random.Random, tier: str, deep: bool) -> Iterator[Dict[str, Any]]:
        for case in self._cases(rng, tier, deep):
            yield case
            # every third chain also on a circular record with the origin at one of its gene borders
            if case["kind"] == "chain" and len(case["genes"]) >= 2 and rng.random() < 0.34 \
                    and len({g["region"] for g in case["genes"]}) == 1:
                yield self.over_origin(case, rng.randrange(1, len(case["genes"])))

    def _cases(self, rng: random.Random, tier: str, deep: bool) -> Iterator[Dict[str, Any]]:
        mi = _mi()
        # every label of the alphabet (+ unknown ones) through classify and the predicates
        for l in self.alphabet() + ["bad-domain-name", "PKS", "PKS_unknown", ""]:
            yield {"kind": "label", "label": l, "subtypes": []}
        yield {"kind": "label", "label": sorted(mi.KETOSYNTHASES)[0], "subtypes": ["Trans-AT-KS", "x"]}

        scale = 10 if deep else 1
        # the saved form in the record: generate_domains -> add_to_record -> Module.to_biopython -> from_biopython
        named = [["PCP", "Thioesterase"], ["ACP", "TD"], ["Condensation_Starter", "AMP-binding"], ["CAL_domain", "PKS_KR"],
                 ["AMP-binding", "PCP"], ["SAT", "PKS_AT"], ["PKS_KS", "PKS_AT", "ACP", "Thioesterase"],
                 ["Condensation_Starter", "AMP-binding", "PCP", "Thioesterase"], ["AMP-binding"], ["PCP", "Epimerization"]]
        for names in named:
            for strand in (1, -1):
                yield {"kind": "feature", "genes": [{"name": "gene", "strand": strand, "region": 0, "motifs": False,
                                                      "domains": [[n, [], 10 + 100 * i, 90 + 100 * i]
                                                                  for i, n in enumerate(names)]}]}
        # tandem duplicates: adjacent same-strand genes with IDENTICAL hits (profile, coordinates, score), so
        # that a module merged across the border borrows a domain whose equal twin sits in the holder gene
        tandem = [["PCP", "Condensation_LCL", "AMP-binding"], ["ACP", "PKS_KS", "PKS_AT"], ["PKS_KR", "ACP", "PKS_KS", "PKS_AT"],
                  ["PCP", "Thioesterase", "Condensation_LCL", "AMP-binding"], ["PP-binding", "CAL_domain"]]
        for names in tandem:
            for strand in (1, -1):
                for copies in (2, 3):
                    doms = [[n, [], 10 + 100 * i, 90 + 100 * i] for i, n in enumerate(names)]
                    yield {"kind": "feature", "genes": [{"name": f"g{k}", "strand": strand, "region": 0, "motifs": False,
                                                          "domains": [list(d) for d in doms]} for k in range(copies)]}
        for _ in range(60 * scale):
            syms = self.shaped(rng, rng.choice([1, 2]))
            k = rng.randrange(len(syms) + 1)
            syms = syms[k:] + syms[:k]          # rotate: the gene starts in the middle of a module
            doms = []
            for d in self.place(rng, syms, scramble=False):
                if d[3] > d[2] and (d[0], d[2], d[3]) not in [(x[0], x[2], x[3]) for x in doms]:
                    doms.append(d)
            strand = rng.choice([1, -1])
            yield {"kind": "feature", "genes": [{"name": f"g{i}", "strand": strand, "region": 0, "motifs": False,
                                                  "domains": [list(d) for d in doms]} for i in range(rng.choice([2, 2, 3]))]}
        for _ in range(150 * scale):
            n = rng.choice([1, 1, 2, 2, 3])
            strand = rng.choice([1, -1])
            if n > 1 and rng.random() < 0.6:
                syms = self.shaped(rng, rng.choice([1, 2, 3]))
                cuts = sorted(rng.randint(0, len(syms)) for _ in range(n - 1))
                pieces = [syms[i:j] for i, j in zip([0] + cuts, cuts + [len(syms)])]
                if strand == -1:
                    pieces.reverse()
            else:
                pieces = [self.rand_string(rng, 8) for _ in range(n)]
            genes = []
            for i, piece in enumerate(pieces):
                doms = self.place(rng, piece, scramble=False)
                seen, uniq = set(), []
                for d in doms:            # domain features are keyed by the hit: no exact duplicates
                    key = (d[0], d[2], d[3])
                    if key not in seen and d[3] > d[2]:
                        seen.add(key)
                        uniq.append(d)
                genes.append({"name": f"g{i}", "strand": strand if rng.random() < 0.9 else -strand, "region": 0,
                              "motifs": False, "domains": uniq})
            yield {"kind": "feature", "genes": genes}
        # HMMResult trees: constructor overlap check, detailed_names, to_json/from_json, Component on top
        for _ in range(600 * scale):
            yield {"kind": "hmm", "tree": self.rand_tree(rng, 0), "locus": "" if rng.random() < 0.03 else "g"}
        # ---- exhaustive small scope
        beh = self.behavioural()
        total = 0
        for n in range(0, 4):
            for combo in itertools.product(beh, repeat=n):
                total += 1
                doms = [[l, list(s), 10 * i + 1, 10 * i + 9] for i, (l, s) in enumerate(combo)]
                yield {"kind": "build", "name": "g", "domains": doms}
        # labels that behave like another one of the alphabet in build (same class, no special name in the
        # state machine) are left out of the length-4 enumeration
        redundant = {"TD", "Abhydrolase_1", "ACPS", "Condensation_Starter", "TIGR01720"}
        reduced = [b for b in beh if b[0] not in redundant]
        max_len = 3
        pair_total = 0
        if deep:
            max_len = 4
            for combo in itertools.product(reduced, repeat=4):
                total += 1
                doms = [[l, list(s), 10 * i + 1, 10 * i + 9] for i, (l, s) in enumerate(combo)]
                yield {"kind": "build", "name": "g", "domains": doms}
            # pairs of strings of length <= 2 x <= 3 over the reduced alphabet (+ Interface, a fused starter),
            # both strands; thinned to a fixed budget by a fixed stride
            strings_a = [c for n in range(1, 3) for c in itertools.product(reduced, repeat=n)]
            strings_b = [c for n in range(1, 4) for c in itertools.product(reduced, repeat=n)]
            budget = 60000
            step = max(1, (len(strings_a) * len(strings_b)) // budget)
            k = 0
            for a in strings_a:
                for b in strings_b:
                    k += 1
                    if k % step:
                        continue
                    pair_total += 1
                    strand = 1 if (k // step) % 2 else -1
                    yield {"kind": "pair",
                           "a": {"name": "a", "strand": strand, "domains":
                                 [[l, list(s), 10 * i + 1, 10 * i + 9] for i, (l, s) in enumerate(a)]},
                           "b": {"name": "b", "strand": strand, "domains":
                                 [[l, list(s), 10 * i + 1, 10 * i + 9] for i, (l, s) in enumerate(b)]}}
        self.exhaustive_done = True
        self.extra_coverage = {"small_scope_alphabet": len(beh), "small_scope_reduced_alphabet": len(reduced),
                               "small_scope_max_len": max_len, "small_scope_build_cases": total,
                               "small_scope_pair_cases": pair_total,
                               "small_scope_note": "all strings of length <= 3 over the behavioural alphabet; in the "
                                                   "deep/thorough tier also all strings of length 4 over the reduced "
                                                   "alphabet and a strided sample of all pairs (<=2 x <=3)"}

        # ---- random
        for _ in range(3000 * scale):
            yield {"kind": "build", "name": rng.choice(["g", "geneA", "x1"]),
                   "domains": self.place(rng, self.rand_string(rng))}
        # inputs outside the quantifier's domain: unknown labels, empty gene name (guards of the real code)
        for _ in range(40 * scale):
            doms = self.place(rng, self.rand_string(rng, 6))
            case = {"kind": "build", "name": "g", "domains": doms}
            if rng.random() < 0.5 or not doms:
                case["name"] = ""
            if rng.random() < 0.7 and doms:
                rng.choice(doms)[0] = rng.choice(["bad-domain-name", "PKS_XX"])
            yield case
        for _ in range(1500 * scale):
            syms = self.rand_string(rng, 12)
            comps = [d + [rng.choice(["g", "g", "h"])] for d in self.place(rng, syms, scramble=False)]
            yield {"kind": "replay", "comps": comps, "first": rng.choice([True, False, None])}
        for _ in range(2500 * scale):
            r = rng.random()
            sa = rng.choice([1, -1])
            sb = sa if rng.random() < 0.9 else -sa
            if r < 0.5:
                da, db = self.split_pair(rng)
                a = {"name": "a", "strand": sa, "domains": da}
                b = {"name": "b", "strand": sb, "domains": db}
            else:
                a = self.gene(rng, "a", sa)
                b = self.gene(rng, "b", sb)
            yield {"kind": "pair", "a": a, "b": b}
        # two-gene chains through generate_domains on both strands: every ordered pair of short strings over the
        # reduced behavioural alphabet, strided to a budget (the strand decides which gene is upstream)
        reduced2 = [b for b in self.behavioural() if b[0] not in ("TD", "Abhydrolase_1", "ACPS", "Condensation_Starter",
                                                                  "TIGR01720")]
        strings2 = [c for n in range(1, 3) for c in itertools.product(reduced2, repeat=n)]
        budget2 = 6000 if deep else 400
        step2 = max(1, (len(strings2) ** 2) // budget2)
        k2 = rng.randrange(step2)
        for a in strings2:
            for b in strings2:
                k2 += 1
                if k2 % step2:
                    continue
                strand = -1 if (k2 // step2) % 3 else 1
                yield {"kind": "chain", "genes": [
                    {"name": "left", "strand": strand, "region": 0, "motifs": False,
                     "domains": [[l, list(s), 10 * i + 1, 10 * i + 9] for i, (l, s) in enumerate(a)]},
                    {"name": "right", "strand": strand, "region": 0, "motifs": False,
                     "domains": [[l, list(s), 10 * i + 1, 10 * i + 9] for i, (l, s) in enumerate(b)]}]}
        for _ in range(400 * scale):
            n = rng.choice([2, 3, 3, 4, 5])
            strand = rng.choice([1, -1])
            genes = []
            if rng.random() < 0.6:
                # one assembly line cut into n genes (listed in coordinate order: reversed on the - strand)
                syms = self.shaped(rng, rng.choice([2, 3, 4]))
                cuts = sorted(rng.randint(0, len(syms)) for _ in range(n - 1))
                pieces = [syms[i:j] for i, j in zip([0] + cuts, cuts + [len(syms)])]
                if strand == -1:
                    pieces.reverse()
                for i, piece in enumerate(pieces):
                    genes.append({"name": f"g{i}", "strand": strand, "region": 0, "motifs": rng.random() < 0.2,
                                  "domains": self.place(rng, piece, scramble=False)})
                # things that must stop a merge at a cut: a gene without domains in between (with or
                # without motifs), a region border, a strand change
                r = rng.random()
                cut = rng.randrange(1, len(genes))
                if r < 0.2:
                    genes.insert(cut, {"name": "gap", "strand": strand, "region": 0, "motifs": rng.random() < 0.4,
                                       "domains": []})
                elif r < 0.35:
                    for g in genes[cut:]:
                        g["region"] = 1
                elif r < 0.45:
                    for g in genes[cut:]:
                        g["strand"] = -strand
                elif r < 0.65:
                    # a gene with hits but no module of its own: only docking / COM domains
                    dock = [(self.cls(rng, "ignore"), []) for _ in range(rng.choice([1, 1, 2]))]
                    genes.insert(cut, {"name": "dock", "strand": strand, "region": 0, "motifs": rng.random() < 0.3,
                                       "domains": self.place(rng, dock, scramble=False)})
            else:
                for i in range(n):
                    g = self.gene(rng, f"g{i}", strand if rng.random() < 0.85 else -strand, 6,
                                  region=0 if rng.random() < 0.85 else 1)
                    g["motifs"] = rng.random() < 0.2
                    if rng.random() < 0.12:
                        g["domains"] = []
                    genes.append(g)
            # regions are contiguous runs
            reg = 0
            for i, g in enumerate(genes):
                if i and g["region"] != 0:
                    reg += 1
                g["region"] = reg
            yield {"kind": "chain", "genes": genes}

    # ------------------------------------------------------------------ implementation adapter
    def run_impl(self, case: Dict[str, Any]) -> Dict[str, Any]:
        kind = case["kind"]
        try:
            return getattr(self, "_impl_" + kind)(case)
        except Exception as exc:  # pylint: disable=broad-except
            return {"err": err_kind(exc), "msg": str(exc)[:200]}

    def _impl_label(self, case: Dict[str, Any]) -> Dict[str, Any]:
        mi = _mi()
        try:
            classification = mi.classify(case["label"])
        except ValueError:
            return {"classification": None}
        c = mi.Component(make_domain([case["label"], case["subtypes"], 0, 1]), "x")
        assert c.classification == classification
        flags = [c.is_adenylation(), c.is_acyltransferase(), c.is_coa_ligase(), c.is_condensation(), c.is_starter(),
                 c.is_loader(), c.is_modification(), c.is_carrier_protein(), c.is_end(), c.is_ignored(),
                 c.is_special(), c.is_fused_starter(), c.is_pks_specific(), c.is_nrps_specific()]
        assert c.subtypes == case["subtypes"]
        return {"classification": classification, "flags": [bool(f) for f in flags], "subtype": c.subtype}

    def _impl_feature(self, case: Dict[str, Any]) -> Dict[str, Any]:
        from unittest.mock import patch
        from antismash.common.secmet.features.module import Module as ModuleFeature
        from antismash.common.secmet.record import Record
        from antismash.common.secmet.test.helpers import DummyCDS, DummyRecord, DummyRegion, DummySubRegion
        from antismash.detection.nrps_pks_domains import domain_identification as di
        genes = case["genes"]
        longest = max([d[3] for g in genes for d in g["domains"]] + [10])
        width = 3 * (longest + 20)
        record = DummyRecord(seq="A" * (width * (len(genes) + 1)))
        for i, g in enumerate(genes):
            record.add_cds_feature(DummyCDS(locus_tag=g["name"], start=i * width + 30, end=i * width + 30 + 3 * (longest + 5),
                                            strand=g["strand"], translation="M" * (longest + 5)))
        sub = DummySubRegion(start=0, end=width * len(genes))
        record.add_subregion(sub)
        record.add_region(DummyRegion(candidate_clusters=[], subregions=[sub]))
        domains = {g["name"]: [make_domain(d) for d in g["domains"]] for g in genes if g["domains"]}
        with patch.object(di, "get_fasta_from_features", return_value=""), \
                patch.object(di, "find_domains", return_value=domains), \
                patch.object(di, "find_subtypes", return_value={}), \
                patch.object(di, "find_ab_motifs", return_value={}), \
                patch.object(di, "get_database_path", return_value=""):
            results = di.generate_domains(record)
        created: List[Any] = []
        original_add = Record.add_module

        def spy(self: Any, feature: Any) -> None:
            created.append(feature)
            original_add(self, feature)
        with patch.object(Record, "add_module", spy):
            results.add_to_record(record)
        # the detection modules in the order add_to_record walks them
        detected: List[Any] = []
        for region in record.get_regions():
            for cds in region.cds_children:
                res = results.cds_results.get(cds)
                for module in (res.modules if res else []):
                    if not any(module is seen for seen in detected):
                        detected.append(module)
        assert len(created) == len(detected) == len(record.get_modules())

        def describe(m: Any) -> Dict[str, Any]:
            return {"domains": [[d.get_name(), d.locus_tag, int(d.location.strand)] for d in m.domains],
                    "type": str(m.module_type), "complete": bool(m.is_complete()), "starter": bool(m.is_starter_module()),
                    "final": bool(m.is_final_module()), "iterative": bool(m.is_iterative()),
                    "parents": list(m.parent_cds_names)}

        feats = []
        for m, det in zip(created, detected):
            bio = m.to_biopython()
            assert len(bio) == 1
            quals = sorted([k, (None if v is None else [str(x) for x in v])] for k, v in bio[0].qualifiers.items()
                           if k != "tool")
            try:
                again = ModuleFeature.from_biopython(bio[0], record=record)
                rebuilt: Any = describe(again)
                same_location = str(again.location) == str(m.location) and again.monomers == m.monomers
            except Exception as exc:  # pylint: disable=broad-except
                rebuilt, same_location = {"err": err_kind(exc)}, False
            feats.append({"original": describe(m), "rebuilt": rebuilt, "same_location": same_location, "quals": quals,
                          "module_comps": [comp_json(c) for c in det],
                          "domains": [[d.get_name(), d.locus_tag, int(d.location.strand),
                                       int(d.protein_location.start), int(d.protein_location.end)] for d in m.domains]})
        return {"features": feats}

    def _impl_hmm(self, case: Dict[str, Any]) -> Dict[str, Any]:
        from antismash.common.hmmscan_refinement import HMMResult
        mi = _mi()

        def construct(node: List[Any]) -> Any:
            children = [construct(c) for c in node[5]]
            return HMMResult(node[0], node[1], node[2], node[3], node[4], internal_hits=children)

        def tree(h: Any) -> List[Any]:
            assert float(int(h.evalue)) == h.evalue and float(int(h.bitscore)) == h.bitscore
            return [h.hit_id, int(h.query_start), int(h.query_end), int(h.evalue), int(h.bitscore),
                    [tree(c) for c in h.internal_hits]]

        def canon(data: Dict[str, Any]) -> List[Any]:
            assert set(data) <= {"hit_id", "query_start", "query_end", "evalue", "bitscore", "internal_hits"}
            inner = None
            if "internal_hits" in data:
                inner = [canon(d) for d in data["internal_hits"]]
            return [data["hit_id"], int(data["query_start"]), int(data["query_end"]), int(data["evalue"]),
                    int(data["bitscore"]), inner]

        h = construct(case["tree"])
        data = json.loads(json.dumps(h.to_json()))
        again = HMMResult.from_json(data)
        out: Dict[str, Any] = {"names": list(h.detailed_names), "json": canon(data), "tree": tree(h),
                               "reloaded": tree(again),
                               "reload_eq": bool(again == h and again.detailed_names == h.detailed_names
                                                 and again.to_json() == h.to_json())}
        try:
            comp = mi.Component(h, case["locus"])
            assert comp.subtypes == h.detailed_names[1:]
            assert comp.subtype == (h.detailed_names[1] if len(h.detailed_names) > 1 else None)
            cagain = mi.Component.from_json(json.loads(json.dumps(comp.to_json())))
            out["component"] = comp_json(comp)
            out["reload_eq"] = out["reload_eq"] and comp_json(cagain) == comp_json(comp) and cagain.domain == h
        except (ValueError, AssertionError) as exc:
            out["component"] = {"err": err_kind(exc)}
        return out

    def _impl_build(self, case: Dict[str, Any]) -> Dict[str, Any]:
        mi = _mi()
        mods = mi.build_modules_for_cds([make_domain(d) for d in case["domains"]], case["name"])
        return {"modules": [mod_json(m) for m in mods]}

    def _impl_replay(self, case: Dict[str, Any]) -> Dict[str, Any]:
        mi = _mi()
        data: Dict[str, Any] = {"components": [{"domain": make_domain(c[:4]).to_json(), "locus": c[4]}
                                               for c in case["comps"]]}
        if case.get("first") is not None:
            data["first_in_cds"] = case["first"]
        m = mi.Module.from_json(json.loads(json.dumps(data)))
        return {"modules": [mod_json(m)]}

    def _impl_pair(self, case: Dict[str, Any]) -> Dict[str, Any]:
        from antismash.common.secmet.test.helpers import DummyCDS
        mi = _mi()
        a, b = case["a"], case["b"]
        prev = mi.CDSModuleInfo(DummyCDS(0, 300, strand=a["strand"], locus_tag=a["name"]),
                                mi.build_modules_for_cds([make_domain(d) for d in a["domains"]], a["name"]))
        cur = mi.CDSModuleInfo(DummyCDS(400, 700, strand=b["strand"], locus_tag=b["name"]),
                               mi.build_modules_for_cds([make_domain(d) for d in b["domains"]], b["name"]))
        out: Dict[str, Any] = {"prev0": [mod_json(m) for m in prev.modules],
                               "cur0": [mod_json(m) for m in cur.modules]}
        merged = mi.combine_modules(cur, prev)
        out["merged"] = None if merged is None else mod_json(merged)
        out["prev"] = [mod_json(m) for m in prev.modules]
        out["cur"] = [mod_json(m) for m in cur.modules]
        out["merged_is_prev_last"] = merged is None or (bool(prev.modules) and prev.modules[-1] is merged)
        return out

    def _impl_chain(self, case: Dict[str, Any]) -> Dict[str, Any]:
        from unittest.mock import patch
        from antismash.common.secmet.record import Record
        from antismash.common.secmet.test.helpers import DummyCDS, DummyRecord, DummyRegion, DummySubRegion
        from antismash.detection.nrps_pks_domains import domain_identification as di
        genes = case["genes"]
        width = 1000
        cdses = []
        if case.get("cross") is not None:
            # circular record, ONE region that crosses the origin: genes are given in record order with their
            # "start"; the region begins at case["cross"] and runs over the origin up to the free slot
            length = case["length"]
            record = DummyRecord(seq="A" * length, circular=True)
            for g in genes:
                cds = DummyCDS(locus_tag=g["name"], start=g["start"], end=g["start"] + 600, strand=g["strand"])
                record.add_cds_feature(cds)
            sub = DummySubRegion(start=case["cross"], end=case["cross"] - width, record_length=length)
            record.add_subregion(sub)
            record.add_region(DummyRegion(candidate_clusters=[], subregions=[sub]))
            cdses = list(record.get_regions()[0].cds_children)
        else:
            record = DummyRecord(seq="A" * (width * (len(genes) + 1)))
            for i, g in enumerate(genes):
                cds = DummyCDS(locus_tag=g["name"], start=i * width + 100, end=i * width + 700, strand=g["strand"])
                record.add_cds_feature(cds)
                cdses.append(cds)
            # contiguous runs of equal region id form one region each
            i = 0
            while i < len(genes):
                j = i
                while j + 1 < len(genes) and genes[j + 1]["region"] == genes[i]["region"]:
                    j += 1
                sub = DummySubRegion(start=i * width, end=(j + 1) * width)
                record.add_subregion(sub)
                record.add_region(DummyRegion(candidate_clusters=[], subregions=[sub]))
                i = j + 1
        domains = {g["name"]: [make_domain(d) for d in g["domains"]] for g in genes if g["domains"]}
        motifs = {g["name"]: [make_domain(["NRPS-motif", [], 3, 9])] for g in genes if g.get("motifs")}
        with patch.object(di, "get_fasta_from_features", return_value=""), \
                patch.object(di, "find_domains", return_value=domains), \
                patch.object(di, "find_subtypes", return_value={}), \
                patch.object(di, "find_ab_motifs", return_value=motifs), \
                patch.object(di, "get_database_path", return_value=""), \
                patch.object(di.CDSResult, "annotate_domains", return_value=None):
            results = di.generate_domains(record)
        out = []
        for cds in cdses:
            res = results.cds_results.get(cds)
            if res is None:
                continue
            # the whole per-gene result through its own JSON form (CDSResult.to_json / from_json)
            try:
                again = di.CDSResult.from_json(json.loads(json.dumps(res.to_json())))
                cds_reload: Any = (len(again.modules) == len(res.modules)
                                   and all(_identity_state(a) == _identity_state(b)
                                           for a, b in zip(again.modules, res.modules))
                                   and again.domain_hmms == res.domain_hmms and again.motif_hmms == res.motif_hmms)
            except Exception as exc:  # pylint: disable=broad-except
                cds_reload = err_kind(exc)
            out.append({"name": cds.get_name(), "modules": [mod_json(m) for m in res.modules],
                        "cds_reload": cds_reload})
        return {"genes": out, "order": [cds.get_name() for cds in cdses]}

    # ------------------------------------------------------------------ driver protocol
    def driver_line(self, case: Dict[str, Any], obs: Dict[str, Any]) -> Optional[Dict[str, Any]]:
        kind = case["kind"]
        line: Dict[str, Any] = {"kind": kind}
        if kind == "label":
            line.update(label=case["label"], subtypes=case["subtypes"])
        elif kind == "hmm":
            line.update(tree=case["tree"], locus=case["locus"])
        elif kind == "feature":
            line.update(genes=case["genes"], impl_features=[{"domains": f["domains"], "quals": f["quals"], "module_comps": f["module_comps"]}
                                                            for f in obs.get("features", [])])
        elif kind == "build":
            line.update(name=case["name"], domains=case["domains"], impl_modules=spec_view(obs.get("modules", [])))
        elif kind == "replay":
            line.update(comps=case["comps"], impl_modules=spec_view(obs.get("modules", [])))
            if case.get("first") is not None:
                line["first"] = case["first"]
        elif kind == "pair":
            line.update(a=case["a"], b=case["b"],
                        impl_prev0=spec_view(obs.get("prev0", [])), impl_cur0=spec_view(obs.get("cur0", [])),
                        impl_prev=spec_view(obs.get("prev", [])), impl_cur=spec_view(obs.get("cur", [])),
                        impl_merged=(spec_view([obs["merged"]])[0] if obs.get("merged") else None))
        elif kind == "chain":
            line.update(genes=case["genes"],
                        impl_genes=[{"name": g["name"], "modules": spec_view(g["modules"])} for g in obs.get("genes", [])])
            if case.get("cross") is not None:
                line["cross"] = case["cross"]
        return line

    # ------------------------------------------------------------------ judge
    @staticmethod
    def _same_module(a: Dict[str, Any], b: Dict[str, Any]) -> bool:
        return all(a.get(k) == b.get(k) for k in STATE) and (a.get("reload") is True) == (b.get("reload") is True)

    @classmethod
    def _same_modules(cls, a: List[Dict[str, Any]], b: List[Dict[str, Any]]) -> bool:
        return len(a) == len(b) and all(cls._same_module(x, y) for x, y in zip(a, b))

    @staticmethod
    def _module_spec(m: Dict[str, Any], s: Dict[str, Any]) -> List[str]:
        bad = []
        if not s["layout"] or not s["layout_idx"]:
            bad.append("layout")
        for f in FLAGS:
            if m[f] != s[f]:
                bad.append(f)
        if m["reload"] is not True:
            bad.append(f"reload={m['reload']}")
        return bad

    def known_input(self, case: Dict[str, Any]) -> bool:
        """is every label classified and every gene name non-empty (the property's quantifier)"""
        alpha = set(self.alphabet())
        if case["kind"] == "build":
            return bool(case["name"]) and all(d[0] in alpha for d in case["domains"])
        if case["kind"] == "replay":
            return all(c[0] in alpha and c[4] for c in case["comps"])
        if case["kind"] == "pair":
            return all(g["name"] and all(d[0] in alpha for d in g["domains"]) for g in (case["a"], case["b"]))
        if case["kind"] in ("chain", "feature"):
            return all(g["name"] and all(d[0] in alpha for d in g["domains"]) for g in case["genes"])
        return True

    def judge(self, case: Dict[str, Any], obs: Dict[str, Any], drv: Optional[Dict[str, Any]]) -> Judgement:
        assert drv is not None
        kind = case["kind"]
        if "err" in drv and "model" not in drv:
            return Judgement(False, True, detail=f"driver error {drv['err']}")
        model = drv["model"]
        spec = drv.get("spec", {})
        in_domain = self.known_input(case)
        tags = [kind]
        detail = ""
        nontrivial = False

        if kind == "label":
            corr = (obs.get("classification") == model["classification"]
                    and (obs.get("classification") is None
                         or (obs["flags"] == model["flags"] and obs["subtype"] == model["subtype"])))
            if "err" in obs:
                corr = False
            return Judgement(corr, True, nontrivial=obs.get("classification") is not None, tags=("label",),
                             detail="" if corr else f"predicates differ: impl {obs} model {model}")

        if kind == "feature":
            if "err" in obs or "err" in model:
                corr = obs.get("err") == model.get("err")
                return Judgement(corr, "err" not in obs or not in_domain, in_scope=in_domain, tags=("feature", "err"),
                                 detail=f"implementation {obs.get('err', 'ok')} ({obs.get('msg', '')}) vs model {model.get('err', 'ok')}")
            problems: List[str] = []
            diffs: List[str] = []
            if len(obs["features"]) != len(model["features"]):
                diffs.append(f"{len(obs['features'])} features for {len(model['features'])} reported modules")
            for i, (f, mm, reread, follows) in enumerate(zip(obs["features"], model["features"], model["rereads"],
                                                             spec["follows"])):
                if not follows:
                    problems.append(f"feature{i}: domains {[(d[1], d[3], d[4]) for d in f['domains']]} are not the module's "
                                    f"components {[(c[4], c[2], c[3]) for c in f['module_comps']]} (gene by gene, in order)")
                if f["rebuilt"] != f["original"] or not f["same_location"]:
                    problems.append(f"feature{i}: rebuilt from its saved form {f['rebuilt']} differs from the original "
                                    f"{f['original']}")
                if "err" in mm:
                    diffs.append(f"feature{i}: model {mm['err']}")
                else:
                    if any(f["original"][k] != mm[k] for k in f["original"]):
                        diffs.append(f"feature{i}: model feature {mm} vs {f['original']}")
                    if sorted(mm["quals"]) != f["quals"]:
                        diffs.append(f"feature{i}: qualifiers {f['quals']} vs model {sorted(mm['quals'])}")
                if reread != f["rebuilt"]:
                    diffs.append(f"feature{i}: from_biopython {f['rebuilt']} vs model {reread}")
            roles = [f for f in obs["features"] if not f["original"]["complete"]
                     and (f["original"]["starter"] or f["original"]["final"])]
            return Judgement(not diffs, not problems, in_scope=in_domain, nontrivial=bool(roles),
                             tags=("feature", f"features{min(len(obs['features']), 4)}",
                                   "incomplete-with-role" if roles else "no-incomplete-role"),
                             detail=("spec: " + "; ".join(problems[:3])) if problems else "; ".join(diffs[:3]))

        if kind == "hmm":
            if "err" in obs or "err" in model:
                corr = obs.get("err") == model.get("err")
                # refusing a non-overlapping internal hit (ValueError) is the documented guard
                return Judgement(corr, obs.get("err", "value-error") == "value-error", in_scope=False,
                                 tags=("hmm", "err:" + str(obs.get("err"))),
                                 detail="" if corr else f"implementation {obs.get('err', 'ok')} vs model {model.get('err', 'ok')}")
            corr = all(obs[k] == model[k] for k in ("names", "json", "tree", "reloaded", "component")) and model["wf"]
            spec_ok = obs["reload_eq"] and obs["reloaded"] == obs["tree"]
            return Judgement(corr, spec_ok, nontrivial=len(obs["names"]) > 1 or obs["json"][5] is not None,
                             tags=("hmm", f"names{min(len(obs['names']), 4)}"),
                             detail="" if (corr and spec_ok) else f"hmm: impl {obs} model {model}"[:600])

        if "err" in obs or "err" in model:
            corr = obs.get("err") == model.get("err")
            tags.append("err:" + str(obs.get("err", "none")))
            if not corr:
                detail = f"implementation {obs.get('err', 'ok')} ({obs.get('msg', '')}) vs model {model.get('err', 'ok')}"
            # the property: construction / merging never fails on sequences over the known alphabet;
            # a replay of an arbitrary sequence may legitimately be refused (IncompatibleComponentError)
            spec_ok = True
            if "err" in obs:
                if kind == "replay":
                    spec_ok = obs["err"] == "value-error:IncompatibleComponentError" or not in_domain
                else:
                    spec_ok = not in_domain
                if not spec_ok and not detail:
                    detail = f"implementation raised {obs['err']}: {obs.get('msg')}"
            return Judgement(corr, spec_ok, in_scope=in_domain, tags=tuple(tags), detail=detail)

        problems: List[str] = []
        if kind in ("build", "replay"):
            corr = self._same_modules(obs["modules"], model["modules"])
            if kind == "build" and not spec["partition"]:
                problems.append("partition")
            for i, (m, s) in enumerate(zip(obs["modules"], spec["modules"])):
                problems += [f"module{i}:{p}" for p in self._module_spec(m, s)]
            nontrivial = len(obs["modules"]) >= 2 or any(m["complete"] for m in obs["modules"])
            tags.append(f"modules{min(len(obs['modules']), 6)}")
            if any(m["complete"] for m in obs["modules"]):
                tags.append("has-complete")
            if any(m["trans_at"] for m in obs["modules"]):
                tags.append("has-trans-at")
            if any(c[0] in _mi().CARRIER_PROTEINS for m in obs["modules"] for c in m["others"]):
                tags.append("double-transporter")
        elif kind == "pair":
            corr = (self._same_modules(obs["prev"], model["prev"]) and self._same_modules(obs["cur"], model["cur"])
                    and self._same_modules(obs["prev0"], model["prev0"])
                    and self._same_modules(obs["cur0"], model["cur0"])
                    and (obs["merged"] is None) == (model["merged"] is None)
                    and (obs["merged"] is None or self._same_module(obs["merged"], model["merged"])))
            if not spec["combine"]:
                problems.append("combine")
            if not obs["merged_is_prev_last"]:
                problems.append("merged-module-not-last-of-previous")
            if obs["merged"] is not None:
                problems += [f"merged:{p}" for p in self._module_spec(obs["merged"], spec["merged"])]
                tags.append("merged")
                if len(obs["merged"]["comps"]) > len(obs["prev0"][-1]["comps"]) + len(obs["cur0"][0]["comps"]):
                    tags.append("merged+KR")
            else:
                tags.append("not-merged")
            for m in obs["prev"] + obs["cur"]:
                if m["reload"] is not True:
                    problems.append(f"reload={m['reload']}")
            guards_passed = (case["a"]["strand"] == case["b"]["strand"] and obs["prev0"] and obs["cur0"]
                             and not obs["prev0"][-1]["complete"])
            nontrivial = bool(guards_passed)
            tags.append("strand+" if case["b"]["strand"] == 1 else "strand-")
        elif kind == "chain":
            og, mg = obs["genes"], model["genes"]
            corr = (len(og) == len(mg) and all(a["name"] == b["name"] and self._same_modules(a["modules"], b["modules"])
                                               for a, b in zip(og, mg)))
            crossing = 0
            if obs.get("order") != spec["order"]:
                corr = False
                detail = f"iteration order of the region's genes: implementation {obs.get('order')} model {spec['order']}"
            if case.get("cross") is not None:
                tags.append("origin-crossing")
            if not spec["line"]:
                problems.append("assembly line: a reported module is not a contiguous block of the genes' domains "
                                "read in transcription order (upstream gene's trailing end + downstream gene's "
                                "leading end), or modules are out of order across genes")
            if not spec["blocks"]:
                problems.append("neighbours: a reported module spans genes that are not direct neighbours of one "
                                "region and one strand (separator inside a module)")
            for g, sg in zip(og, spec["genes"]):
                if g.get("cds_reload") is not True:
                    problems.append(f"{g['name']}:CDSResult reload={g.get('cds_reload')}")
                for m, s in zip(g["modules"], sg):
                    problems += [f"{g['name']}:{p}" for p in self._module_spec(m, s)]
                    if len({c[4] for c in m["comps"]}) > 1:
                        crossing += 1
            # no component is reported twice
            seen = [tuple(map(str, c)) for g in og for m in g["modules"] for c in m["comps"]]
            if len(seen) != len(set(seen)) and len({g["name"] for g in case["genes"]}) == len(case["genes"]):
                if self._has_duplicate_positions(case):
                    pass
                else:
                    problems.append("component reported twice")
            nontrivial = crossing > 0
            tags.append(f"crossing{min(crossing, 3)}")
        else:
            return Judgement(False, True, detail=f"unknown kind {kind}")

        spec_ok = not problems
        if problems:
            detail = "spec: " + ", ".join(problems[:6])
        elif not corr:
            detail = "model and implementation differ: " + self._first_diff(obs, model)
        return Judgement(corr, spec_ok, in_scope=in_domain, nontrivial=nontrivial, tags=tuple(tags), detail=detail)

    @staticmethod
    def _has_duplicate_positions(case: Dict[str, Any]) -> bool:
        for g in case["genes"]:
            keys = [json.dumps(d) for d in g["domains"]]
            if len(keys) != len(set(keys)):
                return True
        return False

    @staticmethod
    def _first_diff(obs: Dict[str, Any], model: Dict[str, Any]) -> str:
        def labels(ms: Any) -> Any:
            if isinstance(ms, list):
                return [[c[0] for c in m["comps"]] if isinstance(m, dict) and "comps" in m else labels(m.get("modules"))
                        if isinstance(m, dict) else m for m in ms]
            if isinstance(ms, dict) and "comps" in ms:
                return [c[0] for c in ms["comps"]]
            return ms
        for k in ("modules", "prev", "cur", "merged", "prev0", "cur0", "genes"):
            if k in obs or k in model:
                a, b = obs.get(k), model.get(k)
                if labels(a) != labels(b):
                    return f"{k}: impl {labels(a)} model {labels(b)}"
                if a != b:
                    la = a if isinstance(a, list) else [a]
                    lb = b if isinstance(b, list) else [b]
                    for x, y in zip(la, lb):
                        if isinstance(x, dict) and isinstance(y, dict):
                            for f in STATE + ("reload",):
                                if f in x and x.get(f) != y.get(f):
                                    return f"{k}.{f}: impl {x.get(f)} model {y.get(f)}"
        return "?"

    # ------------------------------------------------------------------ shrinking
    def shrink(self, case: Dict[str, Any]) -> Iterator[Dict[str, Any]]:
        kind = case["kind"]
        if kind == "build":
            ds = case["domains"]
            for i in range(len(ds)):
                yield dict(case, domains=ds[:i] + ds[i + 1:])
            for i, d in enumerate(ds):
                if d[1]:
                    yield dict(case, domains=ds[:i] + [[d[0], d[1][:-1], d[2], d[3]]] + ds[i + 1:])
        elif kind == "replay":
            cs = case["comps"]
            for i in range(len(cs)):
                yield dict(case, comps=cs[:i] + cs[i + 1:])
        elif kind == "hmm":
            def prune(node: List[Any]) -> Iterator[List[Any]]:
                for i in range(len(node[5])):
                    yield node[:5] + [node[5][:i] + node[5][i + 1:]]
                    for sub in prune(node[5][i]):
                        yield node[:5] + [node[5][:i] + [sub] + node[5][i + 1:]]
            for t in prune(case["tree"]):
                yield dict(case, tree=t)
        elif kind == "pair":
            for key in ("a", "b"):
                ds = case[key]["domains"]
                for i in range(len(ds)):
                    yield dict(case, **{key: dict(case[key], domains=ds[:i] + ds[i + 1:])})
        elif kind in ("chain", "feature"):
            gs = case["genes"]
            for i in range(len(gs)):
                if len(gs) > 1:
                    yield dict(case, genes=gs[:i] + gs[i + 1:])
            for i, g in enumerate(gs):
                ds = g["domains"]
                for k in range(len(ds)):
                    yield dict(case, genes=gs[:i] + [dict(g, domains=ds[:k] + ds[k + 1:])] + gs[i + 1:])


PROP = C14
