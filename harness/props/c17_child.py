"""C17 child interpreter: runs pipeline stages of the real antiSMASH code on JSON cases and prints,
per case, the text each stage produced.  Started by harness/props/c17.py with
    PYTHONHASHSEED=<seed|random>  ASV_REPO=<tree>  /venv/bin/python c17_child.py <alloc>
`alloc` throw-away objects of mixed sizes are allocated (and some freed) before anything else so
that object addresses — and with them the iteration order of sets of identity-hashed objects —
differ between children.  Protocol: one JSON case per stdin line → one JSON object per stdout line
(`{"stage": text, …}`); nothing else is written to stdout.

The stage texts are *raw*: nothing is sorted or canonicalised here (that is the point — two
children given the same case must print the same bytes).
"""
from __future__ import annotations

import io
import json
import math
import os
import re
import sys
import traceback
import types
from typing import Any, Dict, List

_KEEP: List[Any] = []


def perturb_heap(n: int) -> None:
    """allocate n objects of varying size classes, free every third"""
    junk: List[Any] = []
    for i in range(n):
        k = (i * 7919 + n) % 7
        if k == 0:
            junk.append(object())
        elif k == 1:
            junk.append([i])
        elif k == 2:
            junk.append({i: i})
        elif k == 3:
            junk.append((i, i + 1, i + 2))
        elif k == 4:
            junk.append(str(i) * 3)
        elif k == 5:
            junk.append({i})
        else:
            junk.append(float(i) + 0.5)
    _KEEP.extend(junk[::3])
    _KEEP.extend(junk[1::3][: n // 5])


_ADDRESS = re.compile(r"0x[0-9a-fA-F]+")


def _err(exc: BaseException) -> str:
    # object addresses in messages are not results
    return f"ERR:{type(exc).__name__}:{_ADDRESS.sub('0x?', str(exc))[:160]}"


# ----------------------------------------------------------------------------- hit level stages

NAMES = ["Aaa", "Bbb", "Cc_regulator", "Ddd", "Ee_regulatory", "Fff"]
HM_IDS = ["PF00001", "PF00002", "PF00003", "PF00004"]


class _HSP:
    def __init__(self, query_id: str, h: List[int]) -> None:
        self.query_id = query_id
        self.hit_id = NAMES[h[0]]
        self.query_start = h[1]
        self.query_end = h[2]
        self.evalue = math.ldexp(h[3], -60)
        self.bitscore = h[4] / 10


class _QueryResult:
    def __init__(self, hsps: List[_HSP]) -> None:
        self.hsps = hsps


class _CPHit:
    """HSP as cluster_prediction uses it: identity equality and identity hash, like Bio's HSP"""
    def __init__(self, cds: str, f: List[int]) -> None:
        self.uid = f[0]
        self.query_id = NAMES[f[1]]
        self.hit_id = cds
        self.hit_start = f[2]
        self.hit_end = f[3]
        self.bitscore = f[4] / 10
        self.evalue = 1e-10


def stage_refine(case: Dict[str, Any]) -> Dict[str, str]:
    """{"kind":"refine","lens":[…],"nb":bool,"genes":[[hit,…],…]}; hit = [prof,start,end,ev,sc]"""
    from antismash.common import hmmscan_refinement as ref
    lens = dict(zip(NAMES, case["lens"]))
    qrs = []
    for g, hits in enumerate(case["genes"]):
        for h in hits:
            qrs.append(_QueryResult([_HSP(f"g{g}", h)]))
    res = ref.refine_hmmscan_results(qrs, lens, neighbour_mode=case["nb"])
    text = json.dumps([[cds, [[r.hit_id, r.query_start, r.query_end, r.evalue.hex(), float(r.bitscore).hex()]
                              for r in hits]] for cds, hits in res.items()])
    return {"refine": text}


def stage_hmmer(case: Dict[str, Any]) -> Dict[str, str]:
    """{"kind":"hmmer","cut":[…],"limit":n,"hits":[[ident,start,end,score4],…]}"""
    from antismash.common import hmmer
    cutoffs = {HM_IDS[i]: c / 4 for i, c in enumerate(case["cut"]) if c is not None}
    hits = [hmmer.HmmerHit(location="[0:1]", label="cds", locus_tag="cds", domain=HM_IDS[h[0]], evalue=1e-5,
                           score=h[3] / 4, translation="M" * (h[2] - h[1]), identifier=HM_IDS[h[0]],
                           description="d", protein_start=h[1], protein_end=h[2]) for h in case["hits"]]
    def dump(out: List[Any]) -> str:
        return json.dumps([[h.identifier, h.protein_start, h.protein_end, float(h.score).hex()] for h in out])
    res = {"hmmer": dump(hmmer.remove_overlapping(list(hits), cutoffs, overlap_limit=case["limit"]))}
    # the same hits in an order that depends on this child's history: upstream list order must not matter
    if hits:
        k = len(_KEEP) % len(hits)
        res["hmmer_rotated"] = dump(hmmer.remove_overlapping(hits[k:] + hits[:k], cutoffs, overlap_limit=case["limit"]))
    return res


def stage_filter(case: Dict[str, Any]) -> Dict[str, str]:
    """{"kind":"filter","eq":[[prof,…],…],"genes":[[fhit,…],…]}; fhit = [uid,prof,start,end,sc]"""
    from antismash.common.hmm_rule_parser import cluster_prediction as cp
    by_id: Dict[str, List[_CPHit]] = {}
    results: List[_CPHit] = []
    for g, hits in enumerate(case["genes"]):
        objs = [_CPHit(f"g{g}", f) for f in hits]
        if objs:
            by_id[f"g{g}"] = objs
            results.extend(objs)
    eq = [frozenset(NAMES[p] for p in grp) for grp in case["eq"]]
    out: Dict[str, str] = {}
    results, by_id = cp.filter_results(results, by_id, eq)
    out["filter_results"] = json.dumps([[h.uid for h in results], [[k, [h.uid for h in v]] for k, v in by_id.items()]])
    results, by_id = cp.filter_result_multiple(results, by_id)
    out["filter_multiple"] = json.dumps([[h.uid for h in results], [[k, [h.uid for h in v]] for k, v in by_id.items()]])
    return out


# ----------------------------------------------------------------------------- the record pipeline

def _location(loc: Dict[str, Any]) -> Any:
    from antismash.common.secmet.locations import CompoundLocation, FeatureLocation
    parts = [FeatureLocation(lo, hi, strand) for lo, hi, strand in loc["parts"]]
    return CompoundLocation(parts) if loc["c"] else parts[0]


_DATE = re.compile(r"\d{2}-[A-Z]{3}-\d{4}")


def build_record(case: Dict[str, Any], between: Any = None) -> Any:
    """the record of a pipeline case; `subs` (optional): [[start, end], …] subregions that exist before detection"""
    from Bio.Seq import Seq
    from antismash.common.secmet import Record
    from antismash.common.secmet.test.helpers import DummyCDS
    length = case["len"]
    seq = ("ATGGCACCTGAATTCGGATAA" * (length // 21 + 1))[:length]
    rec = Record(Seq(seq))
    rec.id = "rec1"
    rec.name = "rec1"
    rec.description = "c17"
    rec.annotations["topology"] = "circular" if case["circ"] else "linear"
    rec.annotations["molecule_type"] = "DNA"
    rec.annotations["source"] = "src"
    rec.annotations["organism"] = "org"
    rec.annotations["date"] = "01-JAN-2000"
    for g in case["genes"]:
        if between:
            between()
        rec.add_cds_feature(DummyCDS(location=_location(g["loc"]), locus_tag=g["name"], translation="MAA"))
    for start, end in case.get("subs", []):
        from antismash.common.secmet.features import SubRegion
        from antismash.common.secmet.locations import FeatureLocation
        rec.add_subregion(SubRegion(FeatureLocation(start, end, 1), tool="pre", label="existing"))
    return rec


def build_ruleset(case: Dict[str, Any]) -> Any:
    from antismash.common.hmm_rule_parser import rule_parser as rp, cluster_prediction as cp
    from antismash.common.hmm_rule_parser.structures import DynamicHit, DynamicProfile
    profs = list(case["profiles"])
    table: Dict[str, Dict[str, List[Any]]] = {p: {} for p in profs}
    for g in case["genes"]:
        for p, sc in g["hits"]:
            table[p].setdefault(g["name"], []).append(DynamicHit(g["name"], p, bitscore=float(sc)))

    def mkprof(p: str) -> Any:
        return DynamicProfile(p, "d", lambda record, hmmer: {k: list(v) for k, v in table[p].items()})
    rules = rp.Parser(case["rules"], set(profs), set(case["cats"])).rules
    # the rule text gives distances in kilobases; the case overrides them in bases (small records)
    for rule, (cutoff, nbhd) in zip(rules, case["dist"]):
        rule.cutoff = cutoff
        rule.neighbourhood = nbhd
    return cp.Ruleset(tuple(rules), {}, "", set(case["cats"]), "rule-based-clusters",
                      dynamic_profiles={p: mkprof(p) for p in profs}, equivalence_groups=[])


def stage_pipeline(case: Dict[str, Any]) -> Dict[str, str]:
    """{"kind":"pipeline","len":n,"circ":bool,"genes":[{"name","loc","hits":[[prof,score]…]}…],
        "profiles":[…],"cats":[…],"rules":"<rule text>"}"""
    from Bio import SeqIO
    from antismash.common import json as ajson, serialiser
    from antismash.common.hmm_rule_parser import cluster_prediction as cp
    from antismash.detection import hmm_detection
    out: Dict[str, str] = {}
    rec = build_record(case)
    ruleset = build_ruleset(case)

    def step(name: str, fn: Any) -> bool:
        try:
            out[name] = fn()
            return True
        except Exception as exc:  # pylint: disable=broad-except
            out[name] = _err(exc)
            if os.environ.get("C17_TRACE"):
                out[name + "_trace"] = traceback.format_exc()[-1500:]
            return False

    state: Dict[str, Any] = {}

    def detect() -> str:
        # the real module entry point (detect_protoclusters_and_signatures + annotate_cds_features +
        # the module's result object); only the ruleset lookup is replaced by the case's ruleset
        real = hmm_detection.get_ruleset
        hmm_detection.get_ruleset = lambda _options: ruleset
        try:
            state["module"] = hmm_detection.run_on_record(rec, None, types.SimpleNamespace(
                hmmdetection_strictness="relaxed", hmmdetection_limit_to_rules=[], hmmdetection_limit_to_categories=[]))
        finally:
            hmm_detection.get_ruleset = real
        res = state["module"].rule_results
        return json.dumps([[pc.product, str(pc.core_location), str(pc.location),
                            [[cr.cds.get_name(), [[k, sorted(v)] for k, v in cr.definition_domains.items()]]
                             for cr in crs]] for pc, crs in res.cds_by_cluster.items()])
    if not step("detect", detect):
        return out
    res = state["module"].rule_results
    step("annotate", lambda: json.dumps([[cds.get_name(), [str(f) for f in cds.gene_functions],
                                          list(cds.sec_met.domain_ids) if cds.sec_met else None]
                                         for cds in rec.get_cds_features()]))
    step("rule_results_json", lambda: ajson.dumps(res.to_json()))
    step("module_json", lambda: ajson.dumps(state["module"].to_json()))

    def candidates() -> str:
        for pc in res.protoclusters:
            rec.add_protocluster(pc)
        rec.create_candidate_clusters()
        pcs = rec.get_protoclusters()
        return json.dumps([[str(c.kind), str(c.location), [pcs.index(p) + 1 for p in c.protoclusters], list(c.products)]
                           for c in rec.get_candidate_clusters()]
                          + [[p.product, str(p.location)] for p in pcs])
    if not step("candidates", candidates):
        return out

    def regions() -> str:
        rec.create_regions()
        return json.dumps([[str(r.location), list(r.products), r.get_product_string(),
                            [[p.product, str(p.location), p.get_protocluster_number()] for p in r.get_unique_protoclusters()],
                            [c.get_candidate_cluster_number() for c in r.candidate_clusters]]
                           for r in rec.get_regions()])
    if not step("regions", regions):
        return out
    step("areas_json", lambda: ajson.dumps(serialiser.gather_record_areas(rec)))

    def bio() -> Any:
        if "bio" not in state:
            state["bio"] = rec.to_biopython()
        return state["bio"]
    step("record_json", lambda: ajson.dumps(serialiser.record_to_json(bio())))

    def genbank() -> str:
        handle = io.StringIO()
        SeqIO.write([bio()], handle, "genbank")
        return _DATE.sub("DD-MMM-YYYY", handle.getvalue())
    step("genbank", genbank)
    return out


# ----------------------------------------------------------------------------- regions, directly

PRODS = ["p_a", "p_b", "p_c", "p_d"]


def build_region(case: Dict[str, Any], order: List[int], between: Any = None) -> Any:
    """{"L":n,"circ":bool,"protos":[[start,end,product,core offset],…],"groups":[[index,…],…]}:
       a Region of candidate clusters over the listed protoclusters, created in the given order"""
    from antismash.common.secmet.features import Region
    from antismash.common.secmet.features.candidate_cluster import CandidateClusterKind
    from antismash.common.secmet.test.helpers import DummyCandidateCluster, DummyProtocluster
    length = case["L"]
    objs: Dict[int, Any] = {}
    for i in order:
        if between:
            between()
        start, end, prod, off = case["protos"][i]
        if start > end:
            core = ((start + 5 + off) % length, max(1, end - 2))
            if core[0] <= core[1]:
                core = (0, max(1, end - 2))
        else:
            core = (start + 1 + off, start + 9 + off)
        objs[i] = DummyProtocluster(start=start, end=end, core_start=core[0], core_end=core[1],
                                    product=PRODS[prod], record_length=length if case["circ"] else None)
    cands = []
    for grp in case["groups"]:
        kwargs = {"circular_wrap_point": length} if case["circ"] else {}
        cands.append(DummyCandidateCluster(clusters=[objs[i] for i in grp],
                                           kind=CandidateClusterKind.NEIGHBOURING, **kwargs))
    return Region(candidate_clusters=cands), objs


def stage_region(case: Dict[str, Any]) -> Dict[str, str]:
    order = list(range(len(case["protos"])))
    # the creation order follows the allocation history of this child
    k = len(_KEEP) % max(1, len(order))
    order = order[k:] + order[:k]
    region, objs = build_region(case, order, lambda: perturb_heap(len(_KEEP) % 5 + 1))
    index = {id(o): i for i, o in objs.items()}
    return {"unique_protoclusters": json.dumps([[index[id(p)], p.product, str(p.location), str(p.core_location)]
                                                for p in region.get_unique_protoclusters()])}


def stage_ruleset(case: Dict[str, Any]) -> Dict[str, str]:
    """the real shipped ruleset, restricted by the command-line options: the order in which the rules are
    applied (which breaks ties between identical-coordinate protoclusters) must not depend on the hash seed"""
    from antismash.config import build_config, destroy_config
    from antismash.detection import hmm_detection
    args: List[str] = ["--hmmdetection-strictness", case.get("strictness", "relaxed")]
    if case.get("names"):
        args += ["--hmmdetection-limit-to-rule-names", ",".join(case["names"])]
    if case.get("categories"):
        args += ["--hmmdetection-limit-to-rule-categories", ",".join(case["categories"])]
    options = build_config(args, isolated=True, modules=[hmm_detection])
    try:
        problems = hmm_detection.check_options(options)
        if problems:
            # the messages print a Python set of the unknown names: the text of a refusal is not a result,
            # the names are compared as a sorted list
            def canon(message: str) -> str:
                return re.sub(r"\{([^{}]*)\}", lambda m: "{" + ", ".join(sorted(x.strip() for x in m.group(1).split(","))) + "}",
                              message)
            return {"ruleset": json.dumps({"rejected": sorted(canon(p) for p in problems)})}
        hmm_detection.get_ruleset.cache_clear() if hasattr(hmm_detection.get_ruleset, "cache_clear") else None
        ruleset = hmm_detection.get_ruleset(options)
        return {"ruleset": json.dumps([rule.name for rule in ruleset.rules]),
                "rule_names": json.dumps(sorted(ruleset.get_rule_names()))}
    finally:
        destroy_config()


# ----------------------------------------------------------------------------- area formation, directly

AREA_PRODUCTS = ["NRPS", "RiPP-like", "T1PKS", "lanthipeptide", "terpene"]     # sorted by code point
AREA_CATEGORIES = ["NRPS", "RiPP", "PKS", "RiPP", "terpene"]
_OPTIONS: List[Any] = []


def html_options() -> Any:
    """a default configuration, enough for outputs.html.js.convert_regions"""
    if not _OPTIONS:
        from antismash.config import build_config, update_config
        from antismash.main import get_all_modules
        options = build_config([], isolated=True, modules=get_all_modules())
        update_config({"all_enabled_modules": []})
        _OPTIONS.append(options)
    return _OPTIONS[0]


def _span(start: int, end: int, length: int) -> Any:
    from antismash.common.secmet.locations import CompoundLocation, FeatureLocation
    if start < end:
        return FeatureLocation(start, end, 1)
    return CompoundLocation([FeatureLocation(start, length, 1), FeatureLocation(0, end, 1)])


def build_areas(case: Dict[str, Any], between: Any = None) -> Any:
    """{"len":n,"circ":bool,"genes":[[start,end,[product,…]],…],"ps":[[product,core start,core end,neighbourhood],…],
        "subs":[[start,end],…]}: a record with core genes, the protoclusters added in the listed order (each a
       fresh object), then create_candidate_clusters() and create_regions().  A core start > core end spans
       the origin.  Returns (record, protoclusters in creation order, genes)."""
    from antismash.common.secmet.features import Protocluster, SubRegion
    from antismash.common.secmet.qualifiers.gene_functions import GeneFunction
    from antismash.common.secmet.test.helpers import DummyCDS, DummyRecord
    length = case["len"]
    circ = case["circ"]
    record = DummyRecord(seq="ACGT" * (length // 4) + "A" * (length % 4), circular=circ, record_id="rec1")
    genes = []
    for i, (start, end, products) in enumerate(case["genes"]):
        cds = DummyCDS(start, end, locus_tag=f"cds{i}")
        for product in products:
            cds.gene_functions.add(GeneFunction.CORE, "demo", "profile", AREA_PRODUCTS[product])
        record.add_cds_feature(cds)
        genes.append(cds)
    protos = []
    for product, core_start, core_end, nb in case["ps"]:
        if between:
            between()
        core = _span(core_start, core_end, length)
        if circ:
            start, end = (core_start - nb) % length, (core_end + nb) % length
        else:
            start, end = max(0, core_start - nb), min(length, core_end + nb)
        proto = Protocluster(core, _span(start, end, length), tool="demo", product=AREA_PRODUCTS[product], cutoff=1,
                             neighbourhood_range=nb, detection_rule=AREA_PRODUCTS[product],
                             product_category=AREA_CATEGORIES[product])
        record.add_protocluster(proto)
        protos.append(proto)
    for start, end in case.get("subs", []):
        if between:
            between()
        record.add_subregion(SubRegion(_span(start, end, length), tool="demo", label="s"))
    record.create_candidate_clusters()
    record.create_regions()
    return record, protos, genes


def areas_texts(record: Any, protos: List[Any]) -> Dict[str, str]:
    """raw texts of everything numbered / ordered from the candidate clusters and regions"""
    from Bio import SeqIO
    from antismash.common import json as ajson, serialiser
    index = {id(p): i for i, p in enumerate(protos)}
    cands = record.get_candidate_clusters()
    out = {"candidates": json.dumps([[c.get_candidate_cluster_number(), str(c.kind), str(c.location), list(c.products),
                                      [index[id(p)] for p in c.protoclusters]] for c in cands])}
    out["regions"] = json.dumps([[str(r.location), list(r.products),
                                  [c.get_candidate_cluster_number() for c in r.candidate_clusters],
                                  [index[id(p)] for p in r.get_unique_protoclusters()],
                                  [str(s.location) for s in r.subregions]] for r in record.get_regions()])
    out["areas_json"] = ajson.dumps(serialiser.gather_record_areas(record))
    bio = record.to_biopython()
    bio.annotations["date"] = "01-JAN-2000"
    handle = io.StringIO()
    SeqIO.write([bio], handle, "genbank")
    out["genbank_features"] = _DATE.sub("DD-MMM-YYYY", handle.getvalue().split("ORIGIN")[0])
    return out


def stage_formation(case: Dict[str, Any]) -> Dict[str, str]:
    try:
        record, protos, _ = build_areas(case, lambda: perturb_heap(len(_KEEP) % 7 + 1))
    except Exception as exc:  # pylint: disable=broad-except
        return {"candidates": _err(exc)}
    _KEEP.append(record)
    if len(_KEEP) > 20000:
        del _KEEP[:10000]
    out = areas_texts(record, protos)
    # the HTML output's regions.js data (strings in sets: needs different hash seeds, i.e. the children)
    try:
        from antismash.outputs.html import js
        record.record_index = 1
        regions = js.convert_regions(record, html_options(), {})
        out["js_regions"] = json.dumps([[r["idx"], r["type"], r["products"], sorted(r["product_categories"]), r["cssClass"],
                                         [c.get("product") for row in r["clusters"] for c in (row if isinstance(row, list) else [row])
                                          if isinstance(c, dict)]] for r in regions], default=str)
        out["js_product_categories"] = json.dumps([r["product_categories"] for r in regions])
    except Exception as exc:  # pylint: disable=broad-except
        out["js_regions"] = _err(exc)
        if os.environ.get("C17_TRACE"):
            out["js_trace"] = traceback.format_exc()[-1200:]
    return out


# ----------------------------------------------------------------------------- --sideload-by-cds

def sideload_by_cds(case: Dict[str, Any]) -> Any:
    """{"len":n,"circ":bool,"genes":[[start,end,strand],…] (named g0, g1, …),"tags":[name,…],"pad":n}:
       the record and the sideloader results of `--sideload-by-cds tags` with the given padding"""
    from antismash.common.secmet.test.helpers import DummyCDS, DummyRecord
    from antismash.detection.sideloader import general
    genes = [DummyCDS(start=s, end=e, strand=st, locus_tag=f"g{i}") for i, (s, e, st) in enumerate(case["genes"])]
    record = DummyRecord(seq="A" * case["len"], features=genes, circular=case["circ"], record_id="contig")
    results = general.load_single_record_annotations([], record, None, cds_markers=list(case["tags"]),
                                                     cds_marker_padding=case["pad"])
    return record, results


def stage_sideload(case: Dict[str, Any]) -> Dict[str, str]:
    from Bio import SeqIO
    try:
        record, results = sideload_by_cds(case)
    except Exception as exc:  # pylint: disable=broad-except
        return {"sideload_json": _err(exc)}
    out = {"sideload_json": json.dumps(results.to_json())}
    try:
        results.add_to_record(record)
        record.create_regions()
        out["subregions"] = json.dumps([[sub.get_subregion_number(), sub.label, str(sub.location)]
                                        for sub in record.get_subregions()])
        bio = record.to_biopython()
        bio.annotations["date"] = "01-JAN-2000"
        handle = io.StringIO()
        SeqIO.write([bio], handle, "genbank")
        out["genbank_features"] = _DATE.sub("DD-MMM-YYYY", handle.getvalue().split("ORIGIN")[0])
    except Exception as exc:  # pylint: disable=broad-except
        out["subregions"] = _err(exc)
    return out


STAGES = {"refine": stage_refine, "hmmer": stage_hmmer, "filter": stage_filter, "pipeline": stage_pipeline,
          "region": stage_region, "ruleset": stage_ruleset, "formation": stage_formation, "sideload": stage_sideload}


def main() -> None:
    alloc = int(sys.argv[1]) if len(sys.argv) > 1 else 0
    perturb_heap(alloc)
    repo = os.environ.get("ASV_REPO", "/repo")
    if repo not in sys.path:
        sys.path.insert(0, repo)
    import logging
    logging.disable(logging.CRITICAL)
    real_stdout = sys.stdout
    sys.stdout = sys.stderr   # nothing but protocol lines on the real stdout
    for line in sys.stdin:
        line = line.strip()
        if not line:
            continue
        case = json.loads(line)
        # a few more allocations between cases, so that different cases see different layouts
        perturb_heap((alloc % 13) + 1)
        try:
            out = STAGES[case["kind"]](case)
        except Exception as exc:  # pylint: disable=broad-except
            out = {"crash": _err(exc)}
            if os.environ.get("C17_TRACE"):
                out["trace"] = traceback.format_exc()[-1500:]
        real_stdout.write(json.dumps(out) + "\n")
        real_stdout.flush()


if __name__ == "__main__":
    main()
