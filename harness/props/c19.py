"""C19 — region overview layout data is complete, non-overlapping and in range.

Implementation under test: `js.convert_regions(record, options, results)` (which calls
`convert_cds_features` and `area_packing.build_area_rows`) on real `Record`s whose regions are
built from real Protocluster / CandidateCluster / SubRegion / Region objects, and `area_packing.pack`
directly.  `js.get_description` (HTML rendering) is stubbed.
"""
from __future__ import annotations

import itertools
import logging
import random
from typing import Any, Dict, Iterator, List, Optional, Tuple

from ..framework import Judgement, Property, err_kind
from . import common

KINDS = {"protocluster": "proto", "candidatecluster": "cand", "subregion": "sub"}
CAND_KINDS = ["single", "interleaved", "neighbouring", "chemical_hybrid"]


def ring_loc(a: int, length: int, L: int, strand: Any = 1) -> Dict[str, Any]:
    """`length` bases starting at ring position `a` of a record of length L"""
    a %= L
    if a + length <= L:
        return {"c": False, "parts": [[a, a + length, strand]]}
    return {"c": True, "parts": [[a, L, strand], [0, a + length - L, strand]]}


def canon_groups(items: List[Dict[str, Any]]) -> List[Dict[str, Any]]:
    """group ids are object ids / counters: rename by first occurrence"""
    seen: Dict[int, int] = {}
    out = []
    for it in items:
        it = dict(it)
        g = it.get("group", 0)
        if g:
            it["group"] = seen.setdefault(g, len(seen) + 1)
        out.append(it)
    return out


class C19(Property):
    ID = "C19"
    SHAPE = [("antismash/outputs/html/area_packing.py", q) for q in (
        "Area", "Area.__post_init__", "Area.from_feature", "Area.clone", "Area.crosses_origin", "Area.offset",
        "Area.to_minimal_json", "Row", "Row.can_fit", "Row.add", "pack", "adjust_cross_origin_area",
        "build_area_rows")] + [
        ("antismash/outputs/html/js.py", "convert_regions"),
        ("antismash/common/secmet/features/protocluster.py", "SideloadedProtocluster.__init__"),
        ("antismash/common/secmet/features/subregion.py", "SideloadedSubRegion.__init__"),
        ("antismash/outputs/html/js.py", "convert_cds_features"),
        ("antismash/common/secmet/features/region/structures.py", "Region.get_unique_protoclusters"),
        ("antismash/common/secmet/features/region/structures.py", "Region.candidate_clusters"),
        ("antismash/common/secmet/features/region/structures.py", "Region.subregions"),
        ("antismash/common/secmet/features/candidate_cluster/structures.py", "CandidateCluster.protoclusters"),
        ("antismash/common/secmet/features/feature.py", "Feature.start"),
        ("antismash/common/secmet/features/feature.py", "Feature.end"),
        ("antismash/common/secmet/features/feature.py", "Feature.is_contained_by"),
        ("antismash/common/secmet/features/feature.py", "Feature.overlaps_with"),
        ("antismash/common/secmet/features/cdscollection.py", "CDSCollection.crosses_origin"),
        # the constructors whose checks are the theorems' hypotheses (`collOK`, `featOK`)
        ("antismash/common/secmet/features/cdscollection.py", "CDSCollection.__init__"),
        ("antismash/common/secmet/features/feature.py", "Feature.__init__"),
        ("antismash/common/secmet/features/protocluster.py", "Protocluster.__init__"),
        ("antismash/common/secmet/features/cdscollection.py", "CoredCollectionMixin.core_start"),
        ("antismash/common/secmet/features/cdscollection.py", "CoredCollectionMixin.core_end"),
        ("antismash/common/secmet/locations.py", "locations_overlap"),
        ("antismash/common/secmet/locations.py", "location_contains_other"),
        ("antismash/common/secmet/locations.py", "location_bridges_origin"),
    ]
    RULE = ("records of length 24..1000, linear and circular; a window of the ring (anywhere, across the origin, or the "
            "whole record) filled with 0-6 protoclusters (extent + core on a coarse grid with +-1 jitter, symmetric and "
            "asymmetric neighbourhoods, cores before/after/across the origin), 0-6 candidate clusters over random subsets "
            "(all four kinds), 0-3 subregions and 0-6 genes incl. origin-spanning forward/reverse and multi-exon genes; "
            "protocluster cores that tile the record (core_start == core_end); regions that span the origin and tile the whole record (`[s,L)+[0,s)`, by two children or "
            "by one child doing so alone); twins: two different protoclusters with the same extent and product (other core and/or a "
            "sideloaded annotation); regions built directly (`Region(candidates, subregions)`) or by `create_candidate_clusters` + "
            "`create_regions`; plus `pack` alone on unsorted area lists; plus the collection constructor alone on 1-3 part locations (every "
            "check of CDSCollection.__init__/Feature.__init__ reachable); thorough/deep adds the small scope L=24, protocluster "
            "extents/cores on a 4-grid of the ring (every single and every pair exhaustively, triples sampled), each with "
            "and without an origin-spanning subregion and with origin-spanning genes.  non-trivial = the region extends over the origin "
            "(origin-spanning or whole circular record) with >=1 origin-spanning area or gene, or some row holds >=2 "
            "areas; distinct by canonical input")
    TRUSTED = [
        "css classes are not modelled or observed (product, prefix, category and tool of the areas are)",
        "`get_description` is stubbed in the harness (HTML rendering); dna/translation fields are not observed",
        "the order of `region.candidate_clusters`, `region.subregions` and `region.cds_children` is taken as delivered "
        "by the real objects (the theorems hold for every order); `get_unique_protoclusters` is modelled: the delivered "
        "objects are compared by identity with the members of the region's candidate clusters and with the model, the "
        "delivered order must be sorted by the modelled key (the order of equal-key protoclusters is CPython's set order "
        "and is taken as delivered)",
        "region / candidate locations are computed by the real `connect_locations` (C04/C06) and fed to the model",
        "Biopython location classes; Python `id()` uniqueness for group ids (modelled as a counter, compared after "
        "renaming by first occurrence) and for telling protocluster objects apart",
    ]

    # ------------------------------------------------------------------ generators
    def grid_point(self, rng: random.Random, lo: int, hi: int, step: int) -> int:
        """a point in [lo, hi] on the grid, sometimes jittered by one"""
        if hi <= lo:
            return lo
        pts = list(range(lo, hi + 1, step)) or [lo]
        p = rng.choice(pts)
        if rng.random() < 0.2:
            p += rng.choice([-1, 1])
        return max(lo, min(hi, p))

    def rand_interval(self, rng: random.Random, lo: int, hi: int, step: int) -> Tuple[int, int]:
        """offsets (a, b) with lo <= a < b <= hi"""
        a = self.grid_point(rng, lo, hi - 1, step)
        b = self.grid_point(rng, a + 1, hi, step)
        if rng.random() < 0.15:
            a = lo
        if rng.random() < 0.15:
            b = hi
        return a, max(b, a + 1)

    def rand_layout(self, rng: random.Random) -> Dict[str, Any]:
        L = rng.choice([24, 60, 100, 100, 1000])
        step = max(L // 12, 1)
        circular = rng.random() < 0.75
        r = rng.random()
        if not circular:
            wlen = rng.choice([L, L // 2, L // 3 + 1])
            w0 = rng.randrange(0, L - wlen + 1)
            layout = "linear"
        elif r < 0.25:
            wlen = rng.choice([L // 2, L // 3 + 1])
            w0 = rng.randrange(1, L - wlen)
            layout = "inner"
        elif r < 0.7:
            wlen = rng.choice([L // 2, L // 3 + 1, L - step, L - 1, (2 * L) // 3])
            w0 = L - rng.randrange(1, wlen)       # window crosses the origin
            layout = "cross"
        else:
            wlen = L
            w0 = rng.choice([0, rng.randrange(L), rng.randrange(L)])
            layout = "whole"

        def place(off: Tuple[int, int], strand: Any = 1) -> Dict[str, Any]:
            # n == L away from position 0 gives `[s, L) + [0, s)`: an area tiling the record from s back to s
            return ring_loc(w0 + off[0], off[1] - off[0], L, strand)

        protos = []
        for i in range(rng.choice([0, 1, 1, 2, 2, 3, 3, 4, 6])):
            ext = self.rand_interval(rng, 0, wlen, step)
            if layout == "whole" and rng.random() < 0.2:
                ext = (0, wlen)
            core = self.rand_interval(rng, ext[0], ext[1], max(step // 2, 1))
            if ext[1] - ext[0] == L and rng.random() < 0.5:
                core = ext      # a core that tiles the record like its protocluster (core_start == core_end)
            if rng.random() < 0.04:     # malformed on purpose: core not inside the extent
                core = (max(ext[0] - 1, 0), core[1]) if rng.random() < 0.5 else (core[0], min(core[1] + 1, wlen))
            protos.append({"loc": place(ext), "core": place(core), "product": f"p{i}",
                           "tool": rng.choice(["rule-based-clusters", "tool"]),
                           "category": rng.choice(["PKS", "NRPS", "other"])})
        # two *different* protoclusters with the same extent and product: a detected cluster and a sideloaded
        # annotation of it, or the same product found twice with different cores
        if protos and rng.random() < 0.3:
            for _ in range(rng.choice([1, 1, 2])):
                src = rng.choice(protos)
                twin = dict(src)
                r2 = rng.random()
                if r2 < 0.6:
                    ext = self._offsets_of(src["loc"], w0, L)
                    core = self.rand_interval(rng, ext[0], ext[1], max(step // 2, 1))
                    twin["core"] = place(core)
                if r2 > 0.4:
                    twin["sideloaded"] = True
                protos.append(twin)
        cands = []
        if protos:
            idxs = list(range(len(protos)))
            if rng.random() < 0.8:
                cands += [{"kind": "single", "members": [i]} for i in idxs]
            for _ in range(rng.choice([0, 0, 1, 1, 2, 3])):
                members = sorted(rng.sample(idxs, rng.randint(1, len(idxs))))
                kind = rng.choice(CAND_KINDS[1:]) if len(members) > 1 or rng.random() < 0.3 else "single"
                cands.append({"kind": kind, "members": members})
            rng.shuffle(cands)
        subs = []
        for i in range(rng.choice([0, 0, 0, 1, 1, 2, 3])):
            ext = self.rand_interval(rng, 0, wlen, step)
            if layout == "whole" and rng.random() < 0.3:
                ext = (0, wlen)
            subs.append({"loc": place(ext), "label": rng.choice([f"s{i}", f"s{i}", ""]),
                         "sideloaded": rng.random() < 0.4, "tool": rng.choice(["tool", "external"])})
        if layout == "whole" and w0 >= 2 and rng.random() < 0.5:
            # children that together tile the record from w0 back to w0 without any of them doing so alone:
            # the region becomes `[w0, L) + [0, w0)` — it spans the origin *and* covers the whole record
            cut = rng.randrange(L - w0 + 1, L)          # first child runs over the origin
            subs.append({"loc": place((0, cut)), "label": "t0", "sideloaded": False, "tool": "tool"})
            subs.append({"loc": place((max(cut - rng.choice([0, 1, step]), L - w0 + 1), L)), "label": "t1",
                         "sideloaded": False, "tool": "tool"})
        if not cands and not subs:
            subs.append({"loc": place(self.rand_interval(rng, 0, wlen, step)), "label": "s0"})
        genes = []
        gstep = max(step // 3, 1)
        for i in range(rng.choice([0, 1, 2, 3, 4, 6])):
            strand = rng.choice([1, -1])
            r = rng.random()
            if r < 0.6:
                a, b = self.rand_interval(rng, 0, wlen, gstep)
                b = min(b, a + 3 * step)
                loc = place((a, b), strand)
                if loc["c"] and strand == -1:
                    loc["parts"].reverse()      # transcription order
            elif r < 0.8 and circular and layout in ("cross", "whole"):
                # a gene across the origin: k bases before, m after
                k = rng.choice([1, 2, step])
                m = rng.choice([1, 2, step])
                parts = [[L - k, L, strand], [0, m, strand]]
                if rng.random() < 0.3 and k >= 2:       # three exons
                    parts = [[L - k, L - k + 1, strand], [L - k + 1 + (1 if k > 2 else 0), L, strand], [0, m, strand]]
                if strand == -1:
                    parts.reverse()
                loc = {"c": True, "parts": parts}
            else:
                # two exons, not across the origin
                a, b = self.rand_interval(rng, 0, wlen, gstep)
                if b - a < 3:
                    continue
                mid = rng.randrange(a + 1, b - 1)
                p1, p2 = place((a, mid), strand), place((mid + 1, b), strand)
                if p1["c"] or p2["c"] or p1["parts"][0][0] > p2["parts"][0][0]:
                    continue
                parts = [p1["parts"][0], p2["parts"][0]]
                if strand == -1:
                    parts.reverse()
                loc = {"c": True, "parts": parts}
            if all(g["loc"] != loc for g in genes):
                genes.append({"loc": loc})
        mode = "pipeline" if (protos and rng.random() < 0.15) else "direct"
        return {"kind": "regions", "L": L, "circular": circular, "protos": protos, "cands": cands,
                "subs": subs, "genes": genes, "mode": mode}

    @staticmethod
    def _offsets_of(loc: Dict[str, Any], w0: int, L: int) -> Tuple[int, int]:
        """window offsets (a, b) of a location produced by `place`"""
        start = loc["parts"][0][0]
        length = sum(p[1] - p[0] for p in loc["parts"])
        a = (start - w0) % L
        return a, a + length

    def rand_pack(self, rng: random.Random) -> Dict[str, Any]:
        L = rng.choice([24, 60, 100])
        step = max(L // 12, 1)
        areas = []
        for _ in range(rng.choice([1, 2, 3, 4, 5, 8])):
            a, b = self.rand_interval(rng, 0, L, step)
            if rng.random() < 0.3:
                # origin-spanning: [s, L) + [0, e)
                s = self.grid_point(rng, 1, L - 1, step)
                e = self.grid_point(rng, 1, s, step)
                areas.append({"c": True, "parts": [[s, L, 1], [0, e, 1]]})
            else:
                areas.append({"c": False, "parts": [[a, b, 1]]})
        if rng.random() < 0.6:
            areas.sort(key=lambda l: (l["parts"][0][0] - (L if l["c"] else 0), -sum(p[1] - p[0] for p in l["parts"])))
        length = rng.choice([-1, -1, -1, L, L // 2, 0, -5])
        return {"kind": "pack", "L": L, "areas": areas, "length": length}

    def rand_construct(self, rng: random.Random) -> Dict[str, Any]:
        """a location handed to the real collection constructor: mostly near-valid, every check reachable"""
        L = rng.choice([24, 100])
        strand = rng.choice([1, 1, 1, -1, 0, None])

        def part(lo_choices: List[int]) -> List[Any]:
            lo = rng.choice(lo_choices)
            hi = rng.choice([lo, lo + 1, lo + 5, L, L // 2])
            st = strand if rng.random() < 0.9 else rng.choice([1, -1, None])
            return [lo, max(hi, lo), st]
        n = rng.choice([1, 1, 2, 2, 2, 3])
        if n == 1:
            return {"kind": "construct", "L": L, "loc": {"c": False, "parts": [part([-1, 0, 0, 3, L // 2])]}}
        parts = [part([0, 3, L // 2, L - 5])] + [part([0, 0, 0, 1, 4]) for _ in range(n - 1)]
        if rng.random() < 0.2:
            parts[1][1] = parts[0][1]       # exons sharing an end
        return {"kind": "construct", "L": L, "loc": {"c": True, "parts": parts}}

    def cases(self, rng: random.Random, tier: str, deep: bool) -> Iterator[Dict[str, Any]]:
        n = 60000 if deep else 11000
        for i in range(n):
            if i % 8 == 7:
                yield self.rand_pack(rng)
            elif i % 8 == 3:
                yield self.rand_construct(rng)
            else:
                yield self.rand_layout(rng)
        if deep:
            yield from self.small_scope(rng, full=(tier == "thorough"))

    def small_scope(self, rng: random.Random, full: bool) -> Iterator[Dict[str, Any]]:
        """L = 24, <= 3 protoclusters with extents and cores on a 4-grid of the ring, each with its own single
           candidate plus one candidate over all of them, optionally one subregion; one origin-spanning gene"""
        L, g = 24, 4
        pts = list(range(0, L, g))
        exts = [(a, n) for a in pts for n in (g, 2 * g, 4 * g, L - g, L)]
        total = 0

        def protos_of(ext: Tuple[int, int]) -> List[Dict[str, Any]]:
            a, n = ext
            out = []
            for co, cn in ((0, 2), (n - 2, 2), (n // 2 - 1, 2), (0, n)):
                if co < 0 or co + cn > n:
                    continue
                out.append({"loc": ring_loc(a, n, L), "core": ring_loc(a + co, cn, L)})
            return out
        singles = [p for e in exts for p in protos_of(e)]
        combos: List[Tuple[Dict[str, Any], ...]] = [(p,) for p in singles]
        pairs = list(itertools.combinations(singles, 2))
        triples = list(itertools.combinations(singles[::3], 3))
        if full:
            combos += pairs + rng.sample(triples, min(len(triples), 6000))
        else:
            combos += rng.sample(pairs, 1500) + rng.sample(triples, 500)
        genes = [{"loc": {"c": True, "parts": [[L - 2, L, 1], [0, 3, 1]]}},
                 {"loc": {"c": True, "parts": [[0, 2, -1], [L - 3, L, -1]]}},
                 {"loc": {"c": False, "parts": [[5, 9, 1]]}}]
        for combo in combos:
            protos = [dict(p, product=f"p{i}") for i, p in enumerate(combo)]
            cands = [{"kind": "single", "members": [i]} for i in range(len(protos))]
            if len(protos) > 1:
                cands.append({"kind": "neighbouring", "members": list(range(len(protos)))})
            variants = [protos]
            if len(protos) == 2 and protos[0]["loc"] == protos[1]["loc"]:
                # same extent: also as twins (same product, the second a sideloaded annotation)
                variants.append([protos[0], dict(protos[1], product=protos[0]["product"], sideloaded=True)])
            for plist in variants:
                for subs in ([], [{"loc": ring_loc(20, 8, L), "label": "s0"}]):
                    total += 1
                    yield {"kind": "regions", "L": L, "circular": True, "protos": plist, "cands": cands,
                           "subs": subs, "genes": genes, "mode": "direct"}
        # complete for <= 2 protoclusters of the family (x with/without a subregion); triples are sampled
        self.exhaustive_done = full
        self.extra_coverage = {"small_scope_cases": total, "small_scope_singles": len(singles),
                               "small_scope_pairs": len(pairs) if full else 1500,
                               "small_scope_note": "L=24, protocluster extents/cores on a 4-grid of the ring: every "
                               "single and (thorough tier) every pair enumerated; triples sampled"}

    # ------------------------------------------------------------------ implementation adapter
    @staticmethod
    def _feat_json(feature: Any, kind: str) -> Dict[str, Any]:
        out = {"loc": common.location_json(feature.location), "kind": kind}
        if kind in ("proto", "cand"):
            out["core"] = common.location_json(feature.core_location)
        if kind == "proto":
            from antismash.common.secmet.features.protocluster import SideloadedProtocluster
            out.update({"product": feature.product, "tool": feature.tool, "category": feature.product_category,
                        "sideloaded": isinstance(feature, SideloadedProtocluster)})
        elif kind == "cand":
            out["single"] = feature.kind == feature.kinds.SINGLE
            out["product"] = f"CC {feature.get_candidate_cluster_number()}: {feature.kind}"
        else:
            from antismash.common.secmet.features.subregion import SideloadedSubRegion
            out.update({"product": feature.label, "tool": feature.tool,
                        "sideloaded": isinstance(feature, SideloadedSubRegion)})
        return out

    @staticmethod
    def _area_json(a: Dict[str, Any]) -> Optional[Dict[str, Any]]:
        """the harness's own reading of one minimal area object (None when a mandatory key is missing)"""
        if any(key not in a for key in ("start", "end", "kind", "height")):
            return None
        return {"start": int(a["start"]), "end": int(a["end"]), "kind": KINDS.get(a["kind"], a["kind"]),
                "height": int(a["height"]), "nstart": int(a.get("neighbouring_start", a["start"])),
                "nend": int(a.get("neighbouring_end", a["end"])), "product": a.get("product", ""),
                "group": int(a.get("group", 0)), "prefix": a.get("prefix", ""), "category": a.get("category", ""),
                "tool": a.get("tool", "")}

    def run_impl(self, case: Dict[str, Any]) -> Dict[str, Any]:
        logging.disable(logging.CRITICAL)       # `add_region` logs refused inputs
        if case["kind"] == "pack":
            return self.run_pack(case)
        if case["kind"] == "construct":
            from antismash.common.secmet.features import SubRegion
            try:
                location = common.make_location(case["loc"])
            except Exception as exc:  # pylint: disable=broad-except
                return {"rejected": err_kind(exc)}      # Biopython refuses the location itself
            try:
                SubRegion(location, "tool")
            except (ValueError, AssertionError) as exc:
                return {"init": err_kind(exc)}
            return {"init": "ok"}
        from antismash.common.secmet.features import CandidateCluster, Protocluster, Region, SubRegion
        from antismash.common.secmet.features.candidate_cluster.structures import CandidateClusterKind
        from antismash.common.secmet.features.protocluster import SideloadedProtocluster
        from antismash.common.secmet.features.subregion import SideloadedSubRegion
        from antismash.common.secmet.test.helpers import DummyCDS, DummyRecord
        from antismash.outputs.html import js
        js.get_description = lambda *args, **kwargs: ""     # renders HTML, irrelevant here

        L = case["L"]
        try:
            rec = DummyRecord(seq="A" * L, circular=case["circular"])
            rec.record_index = 1
            for i, g in enumerate(case["genes"]):
                rec.add_cds_feature(DummyCDS(location=common.make_location(g["loc"]), locus_tag=f"g{i}",
                                             translation="M"))
            protos = []
            for p in case["protos"]:
                if p.get("sideloaded"):
                    protos.append(SideloadedProtocluster(common.make_location(p["core"]), common.make_location(p["loc"]),
                                                         "external", p["product"]))
                else:
                    protos.append(Protocluster(common.make_location(p["core"]), common.make_location(p["loc"]),
                                               p.get("tool", "tool"), p["product"], 10, 10, "rule",
                                               product_category=p.get("category", "other")))
            for p in protos:
                rec.add_protocluster(p)
            subs = [(SideloadedSubRegion if s.get("sideloaded") else SubRegion)(
                common.make_location(s["loc"]), s.get("tool", "tool"), label=s["label"]) for s in case["subs"]]
            for s in subs:
                rec.add_subregion(s)
            if case["mode"] == "pipeline":
                rec.create_candidate_clusters()
                rec.create_regions()
            else:
                wrap = L if case["circular"] else None
                cands = [CandidateCluster(CandidateClusterKind.from_string(c["kind"]), [protos[i] for i in c["members"]],
                                          circular_wrap_point=wrap) for c in case["cands"]]
                for c in cands:
                    rec.add_candidate_cluster(c)
                rec.add_region(Region(cands, subs))
        except (ValueError, AssertionError, IndexError) as exc:
            # the input objects themselves were refused: nothing to lay out
            return {"rejected": err_kind(exc), "msg": str(exc)[:160]}
        regions = []
        for region in rec.get_regions():
            # the region's protoclusters, independently of get_unique_protoclusters: the members of its
            # candidate clusters, told apart by object identity
            idents: Dict[int, int] = {}
            cands_json = []
            for cand in region.candidate_clusters:
                cj = self._feat_json(cand, "cand")
                cj["members"] = [{"id": idents.setdefault(id(p), len(idents)), "feat": self._feat_json(p, "proto")}
                                 for p in cand.protoclusters]
                cands_json.append(cj)
            delivered = []
            for k, p in enumerate(region.get_unique_protoclusters()):
                delivered.append({"id": idents.get(id(p), 100000 + k), "feat": self._feat_json(p, "proto")})
            regions.append({
                "L": L, "circular": case["circular"],
                "region": common.location_json(region.location),
                "subs": [self._feat_json(s, "sub") for s in region.subregions],
                "cands": cands_json,
                "delivered": delivered,
                "genes": [common.location_json(cds.location) for cds in region.cds_children],
                "names": [cds.get_name() for cds in region.cds_children],
            })
        try:
            converted = js.convert_regions(rec, None, {})
        except Exception as exc:  # pylint: disable=broad-except
            return {"regions": regions, "err": err_kind(exc), "msg": str(exc)[:200]}
        assert len(converted) == len(regions)
        for info, jsr in zip(regions, converted):
            orfs = []
            names = info.pop("names")
            tags = []
            for o in jsr["orfs"]:
                split = o["locus_tag"].endswith("_split")
                tags.append(o["locus_tag"][:-6] if split else o["locus_tag"])
                orfs.append({"start": int(o["start"]), "end": int(o["end"]), "strand": int(o["strand"]),
                             "split": split, "group": int(o.get("group", 0))})
            read = [self._area_json(a) for a in jsr["clusters"]]
            raw = [[[k, (v if isinstance(v, str) else int(v))] for k, v in a.items()]
                   for a in canon_groups(jsr["clusters"])]
            info["impl"] = {"start": int(jsr["start"]), "end": int(jsr["end"]),
                            "areas": canon_groups(read) if all(r is not None for r in read) else None,
                            "areas_raw": raw, "area_keys": [list(a.keys()) for a in jsr["clusters"]],
                            "orfs": canon_groups(orfs),
                            "tags_ok": [t for t, _ in itertools.groupby(tags)] == names}
        return {"regions": regions}

    def run_pack(self, case: Dict[str, Any]) -> Dict[str, Any]:
        from antismash.common.secmet.features import SubRegion
        from antismash.outputs.html.area_packing import pack
        try:
            feats = [SubRegion(common.make_location(loc), "tool", label=str(i)) for i, loc in enumerate(case["areas"])]
        except (ValueError, AssertionError) as exc:
            return {"rejected": err_kind(exc)}
        try:
            rows = pack(feats, case["length"])
        except ValueError as exc:
            return {"rows": None, "err": err_kind(exc)}
        return {"rows": [{"start": int(r.start), "end": int(r.end), "contents": [int(f.label) for f in r.contents]}
                         for r in rows]}

    def driver_line(self, case: Dict[str, Any], obs: Dict[str, Any]) -> Optional[Dict[str, Any]]:
        if "rejected" in obs:
            return None
        if case["kind"] == "construct":
            return {"kind": "construct", "L": case["L"], "loc": case["loc"]}
        if case["kind"] == "pack":
            return {"kind": "pack", "L": case["L"], "length": case["length"],
                    "areas": [{"loc": loc, "kind": "sub"} for loc in case["areas"]]}
        regions = []
        for info in obs["regions"]:
            line = dict(info)
            line.setdefault("impl", {})
            regions.append(line)
        return {"kind": "regions", "regions": regions}

    # ------------------------------------------------------------------ judge
    def judge(self, case: Dict[str, Any], obs: Dict[str, Any], drv: Optional[Dict[str, Any]]) -> Judgement:
        if "rejected" in obs:
            return Judgement(True, True, in_scope=False, tags=("input-rejected", case["kind"]))
        assert drv is not None
        if "err" in drv:
            return Judgement(False, True, detail=f"driver error {drv['err']}")
        if case["kind"] == "pack":
            return self.judge_pack(case, obs, drv)
        if case["kind"] == "construct":
            corr = obs["init"] == drv["init"]
            # a well-formed location must be constructible (theorem wellformed_is_constructible)
            spec_ok = not drv["coll_ok"] or obs["init"] == "ok"
            return Judgement(corr, spec_ok, in_scope=True, nontrivial=len(case["loc"]["parts"]) > 1,
                             tags=("construct", "init-" + obs["init"], "collOK" if drv["coll_ok"] else "not-collOK"),
                             detail="" if corr and spec_ok else
                             f"constructor on {case['loc']}: model {drv['init']} vs implementation {obs['init']}")
        if "err" in obs:
            scope = all(r["scope_areas"] and r["scope_genes"] for r in drv["regions"])
            # the model signals the same refusal (assert / ValueError) as `areas: null`
            model_raises = any(r["model"]["areas"] is None for r in drv["regions"])
            return Judgement(model_raises, not scope, in_scope=scope, tags=("impl-raised", obs["err"]),
                             detail=f"convert_regions raised {obs['err']}: {obs.get('msg')}")
        corr, spec_ok, in_scope, nontrivial = True, True, True, False
        details: List[str] = []
        tags: List[str] = ["circular" if case["circular"] else "linear", case["mode"], f"regions{min(len(obs['regions']), 3)}"]
        for info, d in zip(obs["regions"], drv["regions"]):
            impl, model, spec = info["impl"], d["model"], d["spec"]
            m_areas = canon_groups(model["areas"]) if model["areas"] is not None else None
            m_orfs = canon_groups(model["orfs"])
            if m_areas != impl["areas"]:
                corr = False
                details.append(f"areas: model {m_areas} vs implementation {impl['areas'] or impl['areas_raw']}")
            elif model["area_keys"] != impl["area_keys"]:
                corr = False
                details.append(f"to_minimal_json keys: model {model['area_keys']} vs implementation {impl['area_keys']}")
            if m_orfs != impl["orfs"] or not impl["tags_ok"]:
                corr = False
                details.append(f"orfs: model {m_orfs} vs implementation {impl['orfs']}")
            if (model["start"], model["end"]) != (impl["start"], impl["end"]):
                corr = False
                details.append(f"range: model {model['start']}..{model['end']} vs implementation {impl['start']}..{impl['end']}")
            got = [p["id"] for p in info["delivered"]]
            if sorted(got) != sorted(d["unique"]):
                corr = False
                details.append(f"get_unique_protoclusters: model delivers objects {sorted(d['unique'])}, "
                               f"implementation {sorted(got)}")
            if not spec["protos_sorted"]:
                corr = False
                details.append("get_unique_protoclusters order is not sorted by the modelled key")
            sa, sg = d["scope_areas"], d["scope_genes"]
            in_scope = in_scope and sa and sg
            if sa:
                bad = [k for k, v in spec["areas"].items() if not v] + ([] if spec["announced"] else ["announced"])
                if not spec["delivered_ok"]:
                    bad.append("unique_protoclusters")
                    members = sorted({m["id"] for cj in info["cands"] for m in cj["members"]})
                    details.insert(0, f"the region's candidate clusters hold protocluster objects {members}, "
                                      f"get_unique_protoclusters delivered {got}")
                if bad:
                    spec_ok = False
                    details.insert(0, f"areas violate {bad}: region {info['region']['parts']} L={info['L']} "
                                      f"areas {impl['areas'] or impl['areas_raw']}")
            if sg:
                bad = [k for k, v in spec["orfs"].items() if not v]
                if bad:
                    spec_ok = False
                    details.insert(0, f"orfs violate {bad}: region {info['region']['parts']} L={info['L']} "
                                      f"genes {info['genes']} orfs {impl['orfs']}")
            inf = d["info"]
            areas = impl["areas"] or []
            heights = {a["height"] for a in areas}
            drawn = len([a for a in areas if not a["group"]]) + len({a["group"] for a in areas if a["group"]})
            shared_row = drawn > len(heights)
            if (inf["extend"] and (inf["n_crossing"] or inf["n_gene_crossing"])) or shared_row:
                nontrivial = True
            tags.append("region-crosses" if inf["region_crosses"] else ("whole-record" if inf["extend"] else "plain"))
            rparts = info["region"]["parts"]
            if len(rparts) == 2 and rparts[1][1] == rparts[0][0]:
                tags.append("region-crosses-and-tiles-record")
            if inf["n_crossing"]:
                tags.append("area-crossing" + ("-split" if not inf["region_crosses"] else "-shift"))
            if inf["n_gene_crossing"]:
                tags.append("gene-crossing" + ("-split" if not inf["region_crosses"] else "-shift"))
            if shared_row:
                tags.append("shared-row")
            if inf["n_tied"]:
                tags.append("tied-protoclusters")
                nontrivial = True
            tags.append("scope-areas" if sa else "out-of-scope-areas")
            tags.append("scope-genes" if sg else "out-of-scope-genes")
            if info["genes"]:
                tags.append("genes-by-location-theorem" if inf["genes_loc_ok"] else "genes-by-view-theorem-only")
        return Judgement(corr, spec_ok, in_scope=in_scope, nontrivial=nontrivial, tags=tuple(sorted(set(tags))),
                         detail="; ".join(details)[:3000])

    def judge_pack(self, case: Dict[str, Any], obs: Dict[str, Any], drv: Dict[str, Any]) -> Judgement:
        corr = obs.get("rows") == drv["rows"]
        scope = bool(drv["scope"])
        spec_ok = True
        detail = "" if corr else f"pack: model {drv['rows']} vs implementation {obs.get('rows')}"
        rows = obs.get("rows")
        if scope:
            if rows is None:
                spec_ok, detail = False, "pack raised on well-formed areas"
            else:
                flat = sorted(i for r in rows for i in r["contents"])
                if flat != list(range(len(case["areas"]))):
                    spec_ok, detail = False, f"pack lost or duplicated areas: {rows}"
                for r in rows:
                    for i, j in itertools.combinations(r["contents"], 2):
                        if self._ring_overlap(case["areas"][i], case["areas"][j]):
                            spec_ok, detail = False, f"areas {i} and {j} overlap in one row: {rows}"
        multi = rows is not None and any(len(r["contents"]) > 1 for r in rows)
        return Judgement(corr, spec_ok, in_scope=scope, nontrivial=multi,
                         tags=("pack", "scope" if scope else "out-of-scope", "multi-row" if multi else "flat"),
                         detail=detail)

    @staticmethod
    def _ring_overlap(a: Dict[str, Any], b: Dict[str, Any]) -> bool:
        return any(p[0] < q[1] and q[0] < p[1] for p in a["parts"] for q in b["parts"])

    # ------------------------------------------------------------------ shrinking
    def shrink(self, case: Dict[str, Any]) -> Iterator[Dict[str, Any]]:
        if case["kind"] == "construct":
            return
        if case["kind"] == "pack":
            for i in range(len(case["areas"])):
                yield dict(case, areas=case["areas"][:i] + case["areas"][i + 1:])
            return
        for i in range(len(case["genes"])):
            yield dict(case, genes=case["genes"][:i] + case["genes"][i + 1:])
        for i in range(len(case["subs"])):
            yield dict(case, subs=case["subs"][:i] + case["subs"][i + 1:])
        for i in range(len(case["cands"])):
            yield dict(case, cands=case["cands"][:i] + case["cands"][i + 1:])
        for i in range(len(case["protos"])):
            cands = []
            for c in case["cands"]:
                members = [m - (m > i) for m in c["members"] if m != i]
                if members:
                    cands.append(dict(c, members=members))
            yield dict(case, protos=case["protos"][:i] + case["protos"][i + 1:], cands=cands)
        if case["mode"] == "pipeline":
            yield dict(case, mode="direct")


PROP = C19
