"""Child interpreter for C13's hash-seed matrix: started with its own PYTHONHASHSEED, it runs the *unpatched*
real functions on the cases of a JSON-lines file and prints one canonical JSON result per case.

    refine : refine_hmmscan_results on fake QueryResults (the real gather_by_query builds the set, whose
             enumeration depends on the hash seed), both modes given by the case
    mergedl: _merge_domain_list on the list sorted with refine's total key
    hmmer  : hmmer.remove_overlapping (sets of frozen dataclasses)
usage: python -m harness.props.c13_child <cases.jsonl>      (cwd = the verification root, ASV_REPO honoured)
"""
import json
import sys

from . import c13   # importing the harness puts the tree under test first on sys.path


def run(case):
    kind = case["kind"]
    if kind in ("refine", "hashseed"):
        from antismash.common import hmmscan_refinement as ref
        lens = dict(zip(c13.NAMES, case["lens"]))
        res = ref.refine_hmmscan_results([c13._QueryResult([c13._HSP("cds", h)]) for h in case["hits"]], lens,
                                         neighbour_mode=case["nb"])
        return [c13.hit_json(r) for r in res.get("cds", [])]
    if kind == "mergedl":
        from antismash.common import hmmscan_refinement as ref
        lens = dict(zip(c13.NAMES, case["lens"]))
        hits = sorted({tuple(h) for h in case["hits"]}, key=lambda h: (h[1], h[2], c13.NAMES[h[0]], h[3], h[4]))
        return [c13.hit_json(r) for r in ref._merge_domain_list([c13.hit_obj(list(h)) for h in hits], lens)]
    if kind == "hmmer":
        from antismash.common import hmmer
        cutoffs = {c13.HM_IDS[i]: c / 4 for i, c in enumerate(case["cut"]) if c is not None}
        try:
            out = hmmer.remove_overlapping([c13.C13._hmmer_hit(h) for h in case["hits"]], cutoffs,
                                           overlap_limit=case["limit"])
        except Exception as exc:  # pylint: disable=broad-except
            return {"err": type(exc).__name__}
        return [[c13.HM_IDS.index(h.identifier), h.protein_start, h.protein_end, int(round(h.score * 4))] for h in out]
    raise ValueError(kind)


def main():
    with open(sys.argv[1], encoding="utf-8") as handle:
        for line in handle:
            try:
                print(json.dumps(run(json.loads(line))))
            except Exception as exc:  # pylint: disable=broad-except
                print(json.dumps({"err": f"{type(exc).__name__}: {exc}"[:200]}))


if __name__ == "__main__":
    main()
