"""Helpers shared by the property harnesses: JSON <-> antismash objects."""
from __future__ import annotations

from typing import Any, Dict, Iterator, List, Optional


# ----------------------------------------------------------------------------- locations

def make_location(loc: Dict[str, Any]) -> Any:
    """{"c": bool, "parts": [[lo, hi, strand], ...]} -> FeatureLocation / CompoundLocation"""
    from antismash.common.secmet.locations import CompoundLocation, FeatureLocation
    parts = [FeatureLocation(lo, hi, strand) for lo, hi, strand in loc["parts"]]
    if loc["c"]:
        return CompoundLocation(parts)
    assert len(parts) == 1
    return parts[0]


def strand_json(strand: Any) -> Any:
    return None if strand is None else int(strand)


def location_json(location: Any) -> Dict[str, Any]:
    """antismash/biopython location -> canonical JSON (exact positions only)"""
    from Bio.SeqFeature import CompoundLocation as BioCompound
    parts = [[int(p.start), int(p.end), strand_json(p.strand)] for p in location.parts]
    return {"c": isinstance(location, BioCompound), "parts": parts}


_CDS_CACHE: Dict[str, Any] = {}


def dummy_cds(loc: Dict[str, Any], name: str) -> Any:
    """a real CDSFeature (via the repo's own test helper) at the given location"""
    from antismash.common.secmet.test.helpers import DummyCDS
    key = repr((loc, name))
    if key not in _CDS_CACHE:
        if len(_CDS_CACHE) > 20000:
            _CDS_CACHE.clear()
        location = make_location(loc)
        _CDS_CACHE[key] = DummyCDS(location=location, locus_tag=name, translation="M" * 3)
    return _CDS_CACHE[key]


# ----------------------------------------------------------------------------- rule conditions
# JSON form: ["single", neg, name] | ["score", neg, name, s] | ["minimum", neg, n, [opts]]
#            | ["cds", neg, [subs]] | ["group", neg, [subs]] | ["conj", [subs]]

def cond_str(c: List[Any]) -> str:
    """the text `str(condition)` would print (used to avoid repeated operands)"""
    t = c[0]
    if t == "single":
        return ("not " if c[1] else "") + c[2]
    if t == "score":
        return ("not " if c[1] else "") + f"minscore({c[2]}, {c[3]})"
    if t == "minimum":
        return ("not " if c[1] else "") + f"minimum({c[2]}, [{', '.join(sorted(c[3]))}])"
    if t == "cds":
        inner = " or ".join(cond_str(s) for s in c[2])
        if len(c[2]) == 1 and c[2][0][0] == "group" and not inner.startswith("("):   # fixes/D43
            inner = "(" + inner + ")"
        return ("not " if c[1] else "") + "cds(" + inner + ")"
    if t == "group":
        prefix = "not " if c[1] else ""
        if len(c[2]) == 1 and c[2][0][0] != "conj":
            inner = cond_str(c[2][0])
            if c[1] and inner.startswith("not "):   # fixes/D17: a nested negation keeps its parentheses
                return "not (" + inner + ")"
            return prefix + inner
        return prefix + "(" + " or ".join(cond_str(s) for s in c[2]) + ")"
    if t == "conj":
        return " and ".join(cond_str(s) for s in c[1])
    raise ValueError(t)


def build_cond(c: List[Any]) -> Any:
    from antismash.common.hmm_rule_parser import rule_parser as rp

    def interleave(subs: List[Any], op: Any) -> List[Any]:
        out: List[Any] = []
        for i, s in enumerate(subs):
            if i:
                out.append(op)
            out.append(build_cond(s))
        return out
    t = c[0]
    if t == "single":
        return rp.SingleCondition(c[1], c[2])
    if t == "score":
        return rp.ScoreCondition(c[1], c[2], c[3])
    if t == "minimum":
        return rp.MinimumCondition(c[1], c[2], list(c[3]))
    if t == "cds":
        return rp.CDSCondition(c[1], interleave(c[2], rp.TokenTypes.OR))
    if t == "group":
        return rp.Conditions(c[1], interleave(c[2], rp.TokenTypes.OR))
    if t == "conj":
        return rp.AndCondition(interleave(c[1], rp.TokenTypes.AND))
    raise ValueError(t)


def cond_subs(c: List[Any]) -> List[Any]:
    if c[0] in ("cds", "group"):
        return c[2]
    if c[0] == "conj":
        return c[1]
    return []


def cond_depth(c: List[Any]) -> int:
    """1 for a bare identifier, 2 for minscore/minimum, 1 + max over operands otherwise;
       the transparent non-negated single-operand top-level group is not counted"""
    subs = cond_subs(c)
    if c[0] == "group" and not c[1] and len(subs) == 1:
        return cond_depth(subs[0])
    if c[0] == "single":
        return 1
    if c[0] in ("score", "minimum"):
        return 2
    return 1 + max((cond_depth(s) for s in subs), default=0)


def cond_children(c: List[Any]) -> Iterator[List[Any]]:
    for s in cond_subs(c):
        yield s


def cond_drop_operand(c: List[Any]) -> Iterator[List[Any]]:
    subs = cond_subs(c)
    if len(subs) > 1:
        for i in range(len(subs)):
            rest = subs[:i] + subs[i + 1:]
            if c[0] == "conj":
                yield ["conj", rest] if len(rest) > 1 else rest[0]
            else:
                yield [c[0], c[1], rest]
    for i, s in enumerate(subs):
        for red in cond_drop_operand(s):
            new = subs[:i] + [red] + subs[i + 1:]
            if c[0] == "conj":
                if red[0] != "conj":
                    yield ["conj", new]
            else:
                yield [c[0], c[1], new]


def cond_json(cond: Any) -> List[Any]:
    """real condition object -> the JSON form above (minimum options sorted: they are a set)"""
    from antismash.common.hmm_rule_parser import rule_parser as rp
    if isinstance(cond, rp.SingleCondition):
        return ["single", bool(cond.negated), cond.name]
    if isinstance(cond, rp.ScoreCondition):
        return ["score", bool(cond.negated), cond.name, int(cond.score)]
    if isinstance(cond, rp.MinimumCondition):
        return ["minimum", bool(cond.negated), int(cond.count), sorted(cond.options)]
    subs = [cond_json(sub) for sub in cond.operands]
    if isinstance(cond, rp.CDSCondition):
        return ["cds", bool(cond.negated), subs]
    if isinstance(cond, rp.AndCondition):
        return ["conj", subs]
    assert type(cond) is rp.Conditions, type(cond)
    return ["group", bool(cond.negated), subs]
