"""C16 — sanitised record identifiers are unique, short and filesystem-safe; gene identifiers are
made unique within a record or the record is rejected.

Implementation under test (all real, in-process):
  * kind "ids":    `record_processing.pre_process_sequences` on real `Record`s (stub options, no gene
                   finding, the process pool replaced by a serial map) -> (id, name, original_id) per record
  * kind "fix":    `record_processing.fix_record_name_id` on one record with a given id set
                   (reaches `_shorten_ids` and its three regular expressions directly)
  * kind "unique": `record_processing.generate_unique_id`
  * kind "bio":    `Record.from_biopython` on a biopython SeqRecord with gene / CDS SeqFeatures (identifiers in the
                   qualifiers, as read from a GenBank file): `CDSFeature.from_biopython`, `Gene.from_biopython`,
                   `pop_locus_qualifier`, `add_biopython_feature`, rejection of the whole record
  * kind "genes":  a sequence of `Record.add_gene` / `Record.add_cds_feature` calls with real
                   `CDSFeature`s (whose constructor runs `_sanitise_id_value`)
"""
from __future__ import annotations

import itertools
import logging
import random
import zlib
from typing import Any, Dict, Iterator, List, Optional

from ..framework import Judgement, Property, err_kind
from . import common

RP = "antismash/common/record_processing.py"

# fragments from which identifiers are assembled: every literal / optional character of the three
# regular expressions, digits of several lengths, word / non-word neighbours, illegal characters
FRAGS = ["contig", "ontig", "ontg", "onti", "ont", "oont", "ontgi", "ontii", "ontigg",
         "scaffold", "scafold", "caffold", "caf", "caff", "cafo", "cafl", "cafd", "cafod", "cafdo", "cafold",
         "caffo", "cafff", "c", "cc", " c", "_c", "-c", ".c", "xc", "C",
         "1", "7", "12", "007", "00012", "99999", "100000", "123456", "1234567", "123456789012", "1234567890123",
         "12345678901234567890",
         ".", ".1", ".2", "..", ":", ";", " ", "/", "|", "'", "\"", "(", ")", "[", "]", "{", "}", "=", ">", "<",
         "\\", "~", "\t", "_", "-", "x", "ab", "g", "i", "d", "_0", "_1", "_10", "NZ_", "AMZN010000", "€"]
LONG_TAILS = ["_abcdefghijklmnop", ".abcdefghijklmnop", " whole genome shotgun", "_with_a_long_tail_1", "-abcdefghijklmnopq",
              "abcdefghijklmnopq", ":abcdefghijklmnop:", "_x_y_z_1_2_3_4_5_6"]
ILLEGAL_REC = set('''!"#$%&()*+,:;=>?@[]^`'{|}/ ''')   # only used to *build* interesting inputs


def rand_id(rng: random.Random) -> str:
    r = rng.random()
    if r < 0.08:
        return rng.choice(["", "a", "ab", "a:b", "a;b", ":", "::", "a_0", "ab_0", "_0", "a b", "a:", ":a"])
    n = rng.choice([1, 1, 2, 2, 3, 3, 4, 5, 6])
    s = "".join(rng.choice(FRAGS) for _ in range(n))
    if rng.random() < 0.45:
        s += rng.choice(LONG_TAILS)
    if rng.random() < 0.1:
        s = rng.choice(LONG_TAILS).strip("_.: -") + s
    if rng.random() < 0.12:   # RefSeq-like: exactly one dot, second to last
        stem = "".join(ch for ch in s if ch != ".")
        stem = (stem + "ABCDEFGHIJKLMNOPQR")[:rng.choice([14, 15, 16, 17, 18])]
        s = stem + "." + rng.choice("123")
    return s


def strip_illegal(s: str) -> str:
    return "".join(ch for ch in s if ch not in ILLEGAL_REC)


def variants(rng: random.Random, s: str, index: int) -> List[str]:
    """ids designed to collide with `s` after one of the rewrites"""
    out = [s, strip_illegal(s), s + ":", s[:1] + " " + s[1:], s + "_0", s + "_1", s[:12] + "_0", s[:12] + "_1",
           strip_illegal(s)[:12] + "_0", strip_illegal(s) + "_0", s.partition(".")[0], s + ".1",
           f"c{index:05d}_{s[:7]}..", f"c{index:05d}_{strip_illegal(s[:7])}..", s[:16], s[:15] + ";" + s[15:]]
    for m in ("contig", "caf", " c"):
        pos = s.find(m)
        if pos >= 0:
            digits = ""
            for ch in s[pos + len(m):]:
                if ch.isdigit():
                    digits += ch
                elif digits:
                    break
            if digits:
                num = f"{int(digits):05d}"[-12:]
                out.append(f"c{num}_{s[:12 - len(num)]}..")
                out.append(strip_illegal(f"c{num}_{s[:12 - len(num)]}.."))
    return out


class _Opts:
    """the options `pre_process_sequences` reads"""
    reuse_results = False
    skip_sanitisation = False
    limit_to_record = ""
    minlength = 0
    limit = -1
    taxon = "bacteria"

    def __init__(self, allow_long: bool, reuse: bool = False, skip_sanitisation: bool = False,
                 limit_to_record: str = "") -> None:
        self.allow_long_headers = allow_long
        self.reuse_results = reuse
        self.skip_sanitisation = skip_sanitisation
        self.limit_to_record = limit_to_record

    def __iter__(self) -> Iterator[Any]:
        return iter(())


class _NoGenefinding:
    @staticmethod
    def run_on_record(*_args: Any, **_kwargs: Any) -> None:
        return None


class C16(Property):
    ID = "C16"
    USES_TABLES = True
    SHAPE = [(RP, "pre_process_sequences"), (RP, "fix_record_name_id"), (RP, "generate_unique_id"),
             (RP, "sanitise_sequence"), (RP, "records_contain_shotgun_scaffolds"), (RP, "filter_records_by_name"),
             (RP, "filter_records_by_count"),
             ("antismash/common/secmet/record.py", "Record.__init__"),
             ("antismash/common/secmet/record.py", "Record.__getattr__"),
             ("antismash/common/secmet/record.py", "Record.__setattr__"),
             ("antismash/common/secmet/record.py", "Record.get_genes_by_name"),
             ("antismash/common/secmet/record.py", "Record.has_name"),
             ("antismash/common/secmet/record.py", "Record.get_cds_by_name"),
             ("antismash/common/secmet/features/feature.py", "Feature.overlaps_with"),
             ("antismash/common/secmet/features/gene.py", "Gene.__init__"),
             ("antismash/common/secmet/features/gene.py", "Gene.from_biopython"),
             ("antismash/common/secmet/features/cds_feature.py", "CDSFeature.from_biopython"),
             ("antismash/common/secmet/features/feature.py", "pop_locus_qualifier"),
             ("antismash/common/secmet/record.py", "Record.from_biopython"),
             ("antismash/common/secmet/record.py", "Record.add_biopython_feature"),
             ("antismash/common/secmet/features/gene.py", "Gene.get_name"),
             ("antismash/common/secmet/record.py", "Record.add_cds_feature"),
             ("antismash/common/secmet/record.py", "Record.add_gene"),
             ("antismash/common/secmet/record.py", "_location_checksum"),
             ("antismash/common/secmet/record.py", "_calculate_crc32"),
             ("antismash/common/secmet/features/cds_feature.py", "_sanitise_id_value"),
             ("antismash/common/secmet/features/cds_feature.py", "CDSFeature.__init__"),
             ("antismash/common/secmet/features/cds_feature.py", "CDSFeature.get_name"),
             ("antismash/common/secmet/locations.py", "locations_overlap")]
    RULE = ("lists of 1-6 (id, name) pairs assembled from fragments covering every literal/optional character of the "
            "three _shorten_ids regexes, digit runs of 1-20 digits, word/non-word neighbours and all illegal characters; "
            "each list is seeded with collision variants of its own members (stripped form, [:12]+_N, shortened form, "
            "accession without version, appended illegal character, exact duplicates) x both allow_long_headers; plus "
            "single fix_record_name_id calls with arbitrary id sets / original_id / record_index up to 10^13, "
            "generate_unique_id with holes around the start counter and max_length at the boundary, and sequences of "
            "add_gene/add_cds_feature with names equal after _sanitise_id_value, equal locations, overlapping and "
            "disjoint splice variants, locus tags that are literally the name a splice-variant rename generates; "
            "digit-boundary families: every candidate up to the next power of ten taken with max_length fitting the "
            "first candidate exactly, single calls whose fallback must skip 9..1001 taken `<12 chars>_<n>` ids, and "
            "four ~1000-record inputs per run in which the fallback has to count past 999; thorough/deep adds every list of <=3 ids over a 30-id small scope; "
            "non-trivial = some identifier was rewritten or an operation was rejected; distinct by canonical input")
    TRUSTED = ["Python `re` (the three patterns are modelled by deterministic scanners; ASCII character classes: "
               "non-ASCII digits/letters are outside the modelled input space)",
               "Python str/set/dict semantics, str.partition/count/replace, f-string integer formatting",
               "zlib.crc32 and str(location) are modelled (Model/Ids.crc32, Model/LocString.locChars) and compared with "
               "the real ones through every renamed splice variant; exact positions only",
               "int() of more than 4300 digits raises in CPython >= 3.11 (ids that long are outside the generated space)",
               "the sequence/CDS parts of pre_process_sequences (sanitise_sequence, ensure_cds_info, filters) do not "
               "touch id/name/original_id; the harness stubs the process pool and ensure_cds_info"]

    def __init__(self) -> None:
        self._patched = False
        self.extra_coverage: Dict[str, Any] = {}

    # ------------------------------------------------------------------ generators
    def gen_ids_case(self, rng: random.Random) -> Dict[str, Any]:
        n = rng.choice([1, 2, 2, 3, 3, 3, 4, 5, 6])
        base = [rand_id(rng) for _ in range(rng.choice([1, 1, 2, 3]))]
        ids: List[str] = []
        for i in range(n):
            r = rng.random()
            if ids and r < 0.55:
                src = rng.choice(ids + base)
                ids.append(rng.choice(variants(rng, src, rng.randrange(1, n + 1))))
            elif r < 0.8:
                ids.append(rng.choice(base))
            else:
                ids.append(rand_id(rng))
        if rng.random() < 0.3:
            rng.shuffle(ids)
        recs = []
        for i in ids:
            r = rng.random()
            name = i if r < 0.6 else (rand_id(rng) if r < 0.85 else rng.choice(ids))
            rec = [i, name]
            if rng.random() < 0.15:     # an `accession` annotation (shortened when > 16, whatever the setting)
                rec.append(rng.choice([i, rand_id(rng), i.partition(".")[0]]))
            recs.append(rec)
        case: Dict[str, Any] = {"kind": "ids", "allow_long": rng.random() < 0.35, "recs": recs}
        r = rng.random()
        if r < 0.3:      # --limit-to-record: an input id, one of its rewritten forms, or nobody's id
            src = rng.choice(ids)
            case["limit"] = rng.choice([src, strip_illegal(src), src + "_0", src[:12] + "_0", src.partition(".")[0],
                                        rng.choice(variants(rng, src, rng.randrange(1, n + 1))), "nobody"])
        if rng.random() < 0.12:   # sanitisation switched off
            case[rng.choice(["reuse", "skip_san"])] = True
        return case

    def gen_exhaustion_ids_case(self, rng: random.Random) -> Dict[str, Any]:
        """record level: the `<12 chars>_<n>` fallback has to count past 999, i.e. the counter gains a digit
        exactly where the 16 character budget ends (must be rejected, never a 17 character id)"""
        mode = rng.choice(["shorten", "shorten", "strip"])
        if mode == "shorten":    # the shortened form must be shared, so the number has to be parsed from the id
            stem = rng.choice(["contig7.asse", "caf12.abcdef", "xcontig123.a"])
        else:
            stem = rng.choice(["contig7.asse", "abcdefghijkl", "scaffold3_xy", "NZ_ABCD01000", "x.y.z.x.y.z."])
        n_literal = rng.choice([999, 1000, 1000, 1000, 1001])
        literal = [f"{stem}_{k}" for k in range(n_literal)]
        if mode == "shorten":
            # over-long ids with the same first 12 characters and the same shortened form
            tails = rng.sample(["mbly.part0000", "mbly.part0001", "mbly.part0002", "mbly_a", "mbly_b"], rng.choice([2, 3]))
            special = [stem + t for t in tails]
        else:
            # ids whose stripped form is another record's id: fallback on stripped[:12]
            special = [stem + ":x", stem + "x", stem + ";x"][:rng.choice([2, 3])]
        ids = literal + special
        if rng.random() < 0.5:
            ids = special + literal
        elif rng.random() < 0.3:
            rng.shuffle(ids)
        return {"kind": "ids", "allow_long": rng.random() < 0.1, "recs": [[i, i] for i in ids]}

    def gen_fix_case(self, rng: random.Random) -> Dict[str, Any]:
        rid = rand_id(rng)
        index = rng.choice([1, 2, 7, 42, 99999, 100000, 123456, 10 ** 12 - 1, 10 ** 12, 10 ** 13 + 5])
        taken = set()
        if rng.random() < 0.9:
            taken.add(rid)
        for v in variants(rng, rid, index):
            if rng.random() < 0.3:
                taken.add(v)
        if rng.random() < 0.3:
            for k in range(rng.choice([1, 2, 11, 101, 101, 1000, 1001])):
                taken.add(f"{strip_illegal(rid)[:12]}_{k}")
                if rng.random() < 0.5:
                    taken.add(f"{rid[:12]}_{k}")
        r = rng.random()
        name = rid if r < 0.4 else rand_id(rng)
        orig = None if rng.random() < 0.8 else rng.choice(["", "orig", rid])
        case = {"kind": "fix", "allow_long": rng.random() < 0.3, "rid": rid, "name": name, "orig": orig,
                "index": index, "taken": sorted(taken)}
        if rng.random() < 0.2:
            case["acc"] = rng.choice([rid, rand_id(rng), rid[:16], rid[:17]])
        return case

    def gen_fix_exhaustion_case(self, rng: random.Random) -> Dict[str, Any]:
        """one call whose fallback must skip `<prefix>_0 … _(n-1)`: n around the powers of ten, so that the counter
        gains a digit; with a 12 character prefix the budget of 16 ends exactly at 999 -> 1000"""
        plen = rng.choice([12, 12, 12, 11, 10])
        base = rng.choice(["abcdefghijklmnopqrstu", "contig7.assembly.part0000", "ab:cdefghijklmnopqrstu",
                           "abcdefghij:klmnopqrstu", "abcdefghijklmn;"])
        if plen < 12:
            base = base[:plen]
        allow = rng.random() < 0.15
        n = rng.choice([9, 10, 11, 99, 100, 101, 999, 1000, 1000, 1001])
        taken = {base}
        for v in variants(rng, base, 1):
            taken.add(v)
        for k in range(n):
            taken.add(f"{base[:12]}_{k}")
            taken.add(f"{strip_illegal(base)[:12]}_{k}")
            if allow:
                taken.add(f"{strip_illegal(base)}_{k}")
        return {"kind": "fix", "allow_long": allow, "rid": base, "name": "n", "orig": None, "index": 1,
                "taken": sorted(taken)}

    def gen_unique_case(self, rng: random.Random) -> Dict[str, Any]:
        prefix = rng.choice(["a", "", "seq", "a_1", "abcdefghijkl", "a:b", "x_"])
        start = rng.choice([0, 0, 1, 8, 9, 10, 98, 99, 100, 998])
        run = rng.choice([0, 1, 2, 3, 12, 102])
        taken = {f"{prefix}_{k}" for k in range(start, start + run)}
        for _ in range(rng.choice([0, 1, 3])):
            taken.add(f"{prefix}_{start + rng.randrange(0, run + 3)}")
        for _ in range(rng.choice([0, 2])):
            taken.add(rng.choice([prefix, prefix + "_", f"{prefix}_0{start}", f"{prefix}{start}", "zz"]))
        if rng.random() < 0.3 and run:
            taken.discard(f"{prefix}_{start + rng.randrange(run)}")
        probe = len(f"{prefix}_{start + run}")
        max_length = rng.choice([-1, 0, 16, probe - 1, probe, probe + 1, 1])
        return {"kind": "unique", "prefix": prefix, "taken": sorted(taken), "start": start, "max_length": max_length}

    def gen_unique_boundary_case(self, rng: random.Random) -> Dict[str, Any]:
        """every candidate from `start` up to the next power of ten is taken; max_length fits the first candidate
        exactly (and sometimes the returned one, one character more)"""
        prefix = rng.choice(["ab", "", "abcdefghijkl", "seq", "a_1", "c00001_abcdefg.."[:rng.choice([3, 12])]])
        power = rng.choice([10, 10, 100, 1000])
        start = rng.choice([0, power // 10, power - 10 if power > 10 else 0, power - 3, power - 1])
        taken = {f"{prefix}_{k}" for k in range(start, power)}
        extra = rng.choice([0, 0, 1, 5])
        for k in range(power, power + extra):
            taken.add(f"{prefix}_{k}")
        first = len(f"{prefix}_{start}")
        max_length = rng.choice([first, first, first + 1, first - 1, len(f"{prefix}_{power}"), -1])
        return {"kind": "unique", "prefix": prefix, "taken": sorted(taken), "start": start, "max_length": max_length}

    GENE_NAMES = ["a", "a:b", "a_b", "a b", "a;b", "b", "b\t", "b_", "", "c"]
    GENE_LOCS = [[[10, 40, 1]], [[10, 40, -1]], [[20, 50, 1]], [[40, 70, 1]], [[100, 130, 1]], [[39, 60, 1]],
                 [[10, 25, 1], [30, 40, 1]], [[60, 90, -1]], [[10, 40, 1], [100, 130, 1]], [[200, 260, 1]],
                 [[18, 45, 1]]]    # crc32("[18:45](+)") = 0x0cdea4e3: a checksum with a leading zero nibble

    def gen_genes_case(self, rng: random.Random) -> Dict[str, Any]:
        ops = []
        names = rng.sample(self.GENE_NAMES, rng.choice([2, 3, 4]))
        locs = rng.sample(self.GENE_LOCS, rng.choice([2, 3, 4, 6]))
        if rng.random() < 0.35:
            # a locus tag that is literally the name the splice-variant rename would generate for one of the
            # locations in play (annotations carried over from an earlier run)
            base = rng.choice([n for n in names if n] or ["a"])
            parts = rng.choice(locs)
            crc = f"{zlib.crc32(loc_str({'c': len(parts) > 1, 'parts': parts}).encode('utf-8')):x}"
            names.append(f"{sanitised(base)}_{crc}")
        for _ in range(rng.choice([2, 3, 4, 5, 6, 8])):
            parts = rng.choice(locs)
            loc = {"c": len(parts) > 1, "parts": parts}
            if rng.random() < 0.2:
                nm = rng.choice([n for n in names if n] or ["a"])
                ops.append({"op": "gene", "loc": loc, "locus_tag": nm})
                continue
            op: Dict[str, Any] = {"op": "cds", "loc": loc, "locus_tag": None, "gene": None, "protein_id": None}
            r = rng.random()
            if r < 0.6:
                op["locus_tag"] = rng.choice(names)
            elif r < 0.8:
                op["gene"] = rng.choice(names)
            elif r < 0.9:
                op["protein_id"] = rng.choice(names)
            else:
                op["locus_tag"] = rng.choice(names)
                op["gene"] = rng.choice(names)
                op["protein_id"] = rng.choice(names)
            ops.append(op)
        return {"kind": "genes", "ops": ops}

    BIO_NAMES = ["a", "a b", "ab", "a:b", "a_b", " ", "", "b", "g 1", "g1", "cds10_40", "gene10_40"]

    def gen_bio_case(self, rng: random.Random) -> Dict[str, Any]:
        """a record as read from a file: gene and CDS features with identifier qualifiers"""
        feats = []
        names = rng.sample(self.BIO_NAMES, rng.choice([2, 3, 4]))
        locs = rng.sample(self.GENE_LOCS, rng.choice([2, 3, 4, 6]))
        if rng.random() < 0.3:
            base = rng.choice([n for n in names if n.strip()] or ["a"]).replace(" ", "")
            parts = rng.choice(locs)
            crc = f"{zlib.crc32(loc_str({'c': len(parts) > 1, 'parts': parts}).encode('utf-8')):x}"
            names.append(f"{sanitised(base)}_{crc}")
        for _ in range(rng.choice([1, 2, 3, 4, 5, 6])):
            parts = rng.choice(locs)
            feat: Dict[str, Any] = {"cds": rng.random() < 0.75, "loc": {"c": len(parts) > 1, "parts": parts},
                                    "locus_tag": None, "gene": None, "protein_id": None, "pseudo": False}
            r = rng.random()
            if r < 0.5:
                feat["locus_tag"] = rng.choice(names)
            elif r < 0.65:
                feat["gene"] = rng.choice(names)
            elif r < 0.75:
                feat["protein_id"] = rng.choice(names)
            elif r < 0.9:
                pass    # no identifier at all: named after its position
            else:
                feat["locus_tag"] = rng.choice(names)
                feat["gene"] = rng.choice(names)
                feat["protein_id"] = rng.choice(names)
            feat["pseudo"] = rng.random() < 0.15
            feats.append(feat)
        return {"kind": "bio", "feats": feats}

    SMALL_IDS = ["", "a", ":", ".", "1", "a:", ":a", "a.", "a1", "a:1", "a_0", "a_1", "_0", "a:_0", "a;",
                 "contig1234567.abcdefghijklmnop", "contig1234567.abcdefghijklmno:", "c1234567_conti..",
                 "abcdefghijklmnopq", "abcdefghijklmnop:q", "abcdefghijkl_0", "abcdefghijklmnop", "abcdefghijklmnopq.1",
                 "abcdefghijklmnopq:.1", "c00001_abcdefg..", "c00002_abcdefg..", "abcdefg:hijklmnopq", "c00001_abcdefg_0",
                 "abcdefghijklmno:", "abcdefghijklmno"]

    def small_scope(self, rng: random.Random, full: bool) -> Iterator[Dict[str, Any]]:
        total = 0
        ids = self.SMALL_IDS
        for k in (1, 2, 3):
            for combo in itertools.product(ids, repeat=k):
                if k == 3 and not full and rng.random() > 0.25:
                    continue
                for allow in (False, True):
                    if allow and k == 3 and not full and rng.random() > 0.3:
                        continue
                    total += 1
                    yield {"kind": "ids", "allow_long": allow, "recs": [[i, i] for i in combo]}
        self.exhaustive_done = full
        self.extra_coverage.update({"small_scope_cases": total, "small_scope_ids": len(ids)})

    # adversarial strings per regular expression of _shorten_ids (always run, every tier)
    REGEX_STRINGS = [
        # onti?g?(\d+)\b
        "contig12", "contig12x", "contig12_", "contig12.", "contig12-3", "contig", "contig-12", "ontig12", "onti12",
        "ontg12", "ont12", "on12", "ontgi12", "ontii12", "ontigg12", "ontig g12", "cont12ig34", "ont1x ont22",
        "ont1_ont22.", "contig007", "contig0", "contig99999", "contig100000", "contig1234567", "contig123456789012",
        "contig1234567890123", "xcontig5", "CONTIG12", "Contig12", "contig12contig13", "ont12ont", "ontig12:3",
        # caff?o?l?d?(\d+)\b
        "scaffold12", "scafold12", "caffold12", "caf12", "caff12", "cafo12", "cafl12", "cafd12", "cafod12", "cafdo12",
        "cafold12", "caffo12", "cafff12", "cafol12", "cafld12", "caflo12", "scaf12x", "scaffold_12", "scaffold12_",
        "caf", "scaffold12 contig34", "caf5 ont6", "caf5x caf66", "Scaffold12", "SCAFFOLD12", "cafdd12", "cafoo12",
        # \bc(\d+)\b
        "c12", "xc12", " c12", "_c12", "-c12", ".c12", "c12x", "c12_", "c12-", "cc12", "c 12", "c", "12c", "c12c34",
        "c1x c22", "C12", "ac1 c2", "1c2", "c12.c13", ":c12", "c012",
        # order of the alternatives
        "contig12x caf5", "contig12x caf5x c7", "contig12x caf5x xc7", "c7 caf5 contig12", "c7 caf5", "c7 ont",
    ]

    def regex_cases(self) -> Iterator[Dict[str, Any]]:
        pads = [("zzzzzzzzzzzzzzzzz-", ""), ("", "-zzzzzzzzzzzzzzzzz"), ("", "zzzzzzzzzzzzzzzzz"), ("zzzzzzzzzzzzzzzzz", ""),
                ("zzzzzzzzzzzzzzzzz_", ""), ("", " zzzzzzzzzzzzzzzzz")]
        for text in self.REGEX_STRINGS:
            for k, (pre, post) in enumerate(pads):
                long = pre + text + post
                # through the name (no uniqueness involved: the pure _shorten_ids result) and through the id
                yield {"kind": "fix", "allow_long": False, "rid": "x", "name": long, "orig": None, "index": 3 + k,
                       "taken": ["x"]}
                yield {"kind": "fix", "allow_long": False, "rid": long, "name": "n", "orig": None, "index": 3 + k,
                       "taken": [long]}

    def cases(self, rng: random.Random, tier: str, deep: bool) -> Iterator[Dict[str, Any]]:
        yield from self.regex_cases()
        mult = 10 if deep else 1
        # interleaved so that every kind is reached early
        for block in range(500 * mult):
            for _ in range(10):
                yield self.gen_ids_case(rng)
            for _ in range(6):
                yield self.gen_fix_case(rng)
            for _ in range(2):
                yield self.gen_unique_case(rng)
            yield self.gen_unique_boundary_case(rng)
            for _ in range(5):
                yield self.gen_genes_case(rng)
            for _ in range(3):
                yield self.gen_bio_case(rng)
            if block % 10 == 0:
                yield self.gen_fix_exhaustion_case(rng)
            if block % (125 * mult // (3 if deep else 1)) == 3:
                yield self.gen_exhaustion_ids_case(rng)      # ~1000 records each: 4 per quick run, 12 per deep run
        if deep:
            yield from self.small_scope(rng, full=(tier == "thorough"))

    # ------------------------------------------------------------------ implementation adapter
    def _patch(self) -> Any:
        from antismash.common import record_processing as rp
        if not self._patched:
            logging.disable(logging.CRITICAL)

            def serial(function: Any, args: Any, cpus: Any = None, timeout: Any = None) -> List[Any]:
                return [function(*arg) for arg in args]
            rp.parallel_function = serial                      # no process pool (records must stay the same objects)
            rp.ensure_cds_info = lambda _gf, sequence, **_kw: sequence   # CDS handling is not part of this property
            self._patched = True
        return rp

    @staticmethod
    def _map_err(exc: BaseException) -> Dict[str, Any]:
        msg = str(exc)
        name = type(exc).__name__
        if name == "AntismashInputError" and "record has no name" in msg:
            kind = "no-name"
        elif name == "AntismashInputError" and "no sequences matched filter" in msg:
            kind = "no-match"
        elif name == "SecmetInvalidInputError" and "same location" in msg:
            kind = "dup-location"
        elif name == "SecmetInvalidInputError" and "same name" in msg:
            kind = "dup-name"
        elif name == "ValueError" and "at least one of" in msg:
            kind = "no-identifier"
        else:
            kind = err_kind(exc)
        return {"err": kind, "msg": msg[:160]}

    def run_impl(self, case: Dict[str, Any]) -> Dict[str, Any]:
        kind = case["kind"]
        rp = self._patch()
        from Bio.Seq import Seq
        from antismash.common.secmet import Record
        if kind == "ids":
            records = []
            for rec in case["recs"]:
                record = Record(Seq("ACGT"), id=rec[0], name=rec[1])
                if len(rec) > 2 and rec[2] is not None:
                    record.annotations["accession"] = rec[2]
                records.append(record)
            try:
                opts = _Opts(case["allow_long"], bool(case.get("reuse")), bool(case.get("skip_san")),
                             case.get("limit") or "")
                out = rp.pre_process_sequences(records, opts, _NoGenefinding)
            except Exception as exc:  # pylint: disable=broad-except
                return self._map_err(exc)
            same = len(out) == len(records) and all(a is b for a, b in zip(out, records))
            return {"recs": [[r.id, r.name, r.original_id, r.annotations.get("accession")] for r in out],
                    "skips": [bool(r.skip) for r in out],
                    "answers": [bool(r.has_name(rec[0])) for r, rec in zip(out, case["recs"])],
                    "same_objects": same}
        if kind == "fix":
            record = Record(Seq("ACGT"), id=case["rid"], name=case["name"])
            record.original_id = case["orig"]
            record.record_index = case["index"]
            if case.get("acc") is not None:
                record.annotations["accession"] = case["acc"]
            taken = set(case["taken"])
            try:
                rp.fix_record_name_id(record, taken, case["allow_long"])
            except Exception as exc:  # pylint: disable=broad-except
                return self._map_err(exc)
            return {"rec": [record.id, record.name, record.original_id, record.annotations.get("accession")],
                    "taken": sorted(taken)}
        if kind == "unique":
            taken = set(case["taken"])
            try:
                name, counter = rp.generate_unique_id(case["prefix"], taken, case["start"], case["max_length"])
            except Exception as exc:  # pylint: disable=broad-except
                return self._map_err(exc)
            return {"name": name, "counter": counter, "set_untouched": sorted(taken) == case["taken"]}
        if kind == "genes":
            from antismash.common.secmet.features import CDSFeature, Gene
            record = Record(Seq("A" * 300))
            outs: List[Any] = []
            untouched = True
            for op in case["ops"]:
                location = common.make_location(op["loc"])
                if op["op"] == "gene":
                    record.add_gene(Gene(location, locus_tag=op["locus_tag"]))
                    outs.append("gene")
                    continue
                cds = None
                try:
                    cds = CDSFeature(location, translation="MA", locus_tag=op["locus_tag"], gene=op["gene"],
                                     protein_id=op["protein_id"])
                    before = (cds.locus_tag, cds.gene, cds.protein_id)
                    record.add_cds_feature(cds)
                    outs.append({"name": cds.get_name()})
                except Exception as exc:  # pylint: disable=broad-except
                    outs.append({"err": self._map_err(exc)["err"]})
                    # a rejected feature must not have been altered on the way
                    if cds is not None and (cds.locus_tag, cds.gene, cds.protein_id) != before:
                        untouched = False
            feats = record.get_cds_features()
            by_name = sorted(record._cds_by_name)          # pylint: disable=protected-access
            cdss = [[f.get_name(), common.location_json(f.location)] for f in feats]
            index_ok = (by_name == sorted(f.get_name() for f in feats)
                        and all(record.get_cds_by_name(f.get_name()) is f for f in feats))
            return {"ops": outs, "cdss": cdss, "index_ok": index_ok, "rejected_untouched": untouched}
        if kind == "bio":
            from Bio.SeqFeature import SeqFeature
            from Bio.SeqRecord import SeqRecord
            bio = SeqRecord(Seq("ATG" + "GCA" * 100), id="rec", name="rec")
            bio.annotations["molecule_type"] = "DNA"
            for feat in case["feats"]:
                quals = {key: [feat[key]] for key in ("locus_tag", "gene", "protein_id") if feat[key] is not None}
                if feat["cds"]:
                    quals["translation"] = ["MA"]
                if feat["pseudo"]:
                    quals["pseudo"] = [""]
                bio.features.append(SeqFeature(common.make_location(feat["loc"]), type="CDS" if feat["cds"] else "gene",
                                               qualifiers=quals))
            try:
                record = Record.from_biopython(bio, "bacteria")
            except Exception as exc:  # pylint: disable=broad-except
                return self._map_err(exc)
            feats = record.get_cds_features()
            by_name = sorted(record._cds_by_name)          # pylint: disable=protected-access
            index_ok = (by_name == sorted(f.get_name() for f in feats)
                        and all(record.get_cds_by_name(f.get_name()) is f for f in feats))
            return {"cdss": [[f.get_name(), common.location_json(f.location)] for f in feats],
                    "genes": [g.get_name() for g in record.get_genes()], "index_ok": index_ok}
        raise ValueError(f"unknown case kind {kind}")

    def driver_line(self, case: Dict[str, Any], obs: Dict[str, Any]) -> Optional[Dict[str, Any]]:
        kind = case["kind"]
        if kind == "ids":
            return {"kind": kind, "allow_long": case["allow_long"], "recs": case["recs"], "impl": obs.get("recs"),
                    "reuse": bool(case.get("reuse")), "skip_san": bool(case.get("skip_san")),
                    "limit": case.get("limit") or ""}
        if kind == "fix":
            impl = None if "err" in obs else {"rec": obs["rec"][:3], "taken": obs["taken"]}
            return {"kind": kind, "allow_long": case["allow_long"], "rid": case["rid"], "name": case["name"],
                    "orig": case["orig"], "index": case["index"], "taken": case["taken"], "acc": case.get("acc"),
                    "impl": impl}
        if kind == "unique":
            return {"kind": kind, "prefix": case["prefix"], "taken": case["taken"], "start": case["start"],
                    "max_length": case["max_length"], "impl": obs.get("name")}
        if kind == "bio":
            return {"kind": kind, "feats": case["feats"], "impl": obs.get("cdss")}
        return {"kind": kind, "ops": case["ops"], "impl": obs.get("cdss")}

    # ------------------------------------------------------------------ judge
    def judge(self, case: Dict[str, Any], obs: Dict[str, Any], drv: Optional[Dict[str, Any]]) -> Judgement:
        assert drv is not None
        if "err" in drv:
            return Judgement(False, True, detail=f"driver error {drv['err']}")
        if "_trace" in obs:
            return Judgement(False, False, detail=f"adapter crashed: {obs['_trace']}")
        kind = case["kind"]
        model = drv["model"]
        spec = drv.get("spec")
        tags = [kind]
        spec_ok, detail, nontrivial = True, "", False
        if kind == "ids":
            sanitised_run = not (case.get("reuse") or case.get("skip_san"))
            limit = case.get("limit") or ""
            if limit:
                tags.append("limit-to-record")
            if not sanitised_run:
                tags.append("sanitisation-off")
            if "err" in obs:
                corr = model.get("err") == obs["err"]
                tags.append("rejected:" + obs["err"])
                if len(case["recs"]) > 900:
                    tags.append("thousand-records")
                nontrivial = True
                # rejecting is allowed only in the two documented ways
                allowed = {"no-name"}
                if sanitised_run and not case["allow_long"]:
                    allowed.add("RuntimeError")
                if limit:
                    allowed.add("no-match")
                if obs["err"] not in allowed:
                    spec_ok = False
                    detail = f"unexpected rejection {obs}"
            else:
                corr = (model.get("recs") == obs["recs"] and model.get("skips") == obs["skips"]
                        and model.get("answers") == obs["answers"])
                if sanitised_run:
                    spec_ok = bool(spec and spec["ok"]) and obs["same_objects"] and all(obs["answers"])
                    if limit:   # distinct ids: the filter keeps exactly the one record carrying the target
                        kept = [o[0] for o, skipped in zip(obs["recs"], obs["skips"]) if not skipped]
                        spec_ok = spec_ok and kept == [limit]
                else:           # identifiers exactly as read
                    spec_ok = obs["same_objects"] and all(
                        o[0] == r[0] and o[1] == r[1] and o[2] is None for o, r in zip(obs["recs"], case["recs"]))
                if not spec_ok:
                    detail = (f"spec {spec} skips={obs['skips']} answers={obs['answers']} on implementation output "
                              f"{obs['recs']}")
                changed = sum(1 for r, o in zip(case["recs"], obs["recs"]) if r[0] != o[0])
                nontrivial = changed > 0
                tags.append("changed" if changed else "unchanged")
                tags.append("allow-long" if case["allow_long"] else "short-only")
                if len(case["recs"]) > 900:
                    tags.append("thousand-records")
                if any(len(r[0]) > 16 for r in case["recs"]):
                    tags.append("has-long-id")
                if len({r[0] for r in case["recs"]}) < len(case["recs"]):
                    tags.append("has-duplicates")
                if len({strip_illegal(r[0]) for r in case["recs"]}) < len({r[0] for r in case["recs"]}):
                    tags.append("collide-after-strip")
        elif kind == "fix":
            if "err" in obs:
                corr = model.get("err") == obs["err"]
                tags.append("rejected:" + obs["err"])
                nontrivial = True
                spec_ok = obs["err"] == "RuntimeError"
                detail = "" if spec_ok else f"unexpected rejection {obs}"
            else:
                corr = model.get("rec") == obs["rec"] and model.get("taken") == obs["taken"]
                spec_ok = bool(spec and spec["ok"])
                if not spec_ok:
                    detail = f"per-call spec {spec} on implementation output {obs['rec']} (set size {len(obs['taken'])})"
                nontrivial = obs["rec"][0] != case["rid"] or obs["rec"][1] != case["name"]
                tags.append("changed" if nontrivial else "unchanged")
                if len(case["taken"]) >= 1000:
                    tags.append("big-set")
        elif kind == "unique":
            if "err" in obs:
                corr = model.get("err") == obs["err"]
                tags.append("rejected:" + obs["err"])
            else:
                corr = model.get("name") == obs["name"] and model.get("counter") == obs["counter"]
                spec_ok = bool(spec and spec["ok"]) and obs["set_untouched"]
                detail = "" if spec_ok else (f"generate_unique_id returned {obs['name']!r} (length {len(obs['name'])}) "
                                             f"with max_length={case['max_length']}: taken / too long / set modified")
                if 0 < case["max_length"] == len(obs["name"]):
                    tags.append("at-length-limit")
            nontrivial = bool(case["taken"])
        elif kind == "bio":
            if "err" in obs:
                corr = model.get("err") == obs["err"]
                tags.append("rejected:" + obs["err"])
                nontrivial = True
                spec_ok = obs["err"] in ("dup-location", "dup-name")     # the record is rejected as bad input
                detail = "" if spec_ok else f"unexpected rejection {obs}"
            else:
                corr = ("cdss" in model and sorted_cdss(model["cdss"]) == sorted_cdss(obs["cdss"])
                        and model["genes"] == obs["genes"])
                spec_ok = bool(spec and spec["ok"]) and obs["index_ok"]
                if not spec_ok:
                    detail = f"spec {spec} index_ok={obs['index_ok']} on {obs['cdss']}"
                given = {f[k] for f in case["feats"] for k in ("locus_tag", "gene", "protein_id") if f[k]}
                nontrivial = any(c[0] not in given for c in obs["cdss"])
                tags.append("renamed-or-sanitised" if nontrivial else "as-given")
        else:
            corr = model["ops"] == obs["ops"] and sorted_cdss(model["cdss"]) == sorted_cdss(obs["cdss"])
            errs = [o["err"] for o in obs["ops"] if isinstance(o, dict) and "err" in o]
            clean_rejections = all(e in ("dup-location", "dup-name", "no-identifier") for e in errs)
            spec_ok = bool(spec and spec["ok"]) and obs["index_ok"] and clean_rejections and obs["rejected_untouched"]
            if not spec_ok:
                detail = (f"spec {spec} index_ok={obs['index_ok']} rejections={sorted(set(errs))} "
                          f"rejected_untouched={obs['rejected_untouched']} on {obs['cdss']}")
            renamed = any(isinstance(o, dict) and "name" in o and "_" in o["name"] and len(o["name"]) > 6
                          for o in obs["ops"])
            nontrivial = bool(errs) or renamed
            tags += sorted({"rejected:" + e for e in errs})
            if renamed:
                tags.append("renamed")
        if not corr and not detail:
            detail = f"model {model} vs implementation {obs}"
        return Judgement(corr, spec_ok, in_scope=bool(drv.get("scope", True)), nontrivial=nontrivial,
                         tags=tuple(tags), detail=detail[:1500])

    # ------------------------------------------------------------------ shrinker
    def shrink(self, case: Dict[str, Any]) -> Iterator[Dict[str, Any]]:
        case = {k: v for k, v in case.items() if not k.startswith("_")}
        kind = case["kind"]
        if kind == "ids":
            recs = case["recs"]
            if len(recs) > 40:
                # big families: drop halves / quarters / … only
                size = len(recs) // 2
                while size >= 1:
                    for start in range(0, len(recs), size):
                        yield dict(case, recs=recs[:start] + recs[start + size:])
                    if size < len(recs) // 16:
                        break
                    size //= 2
                return
            for i in range(len(recs)):
                if len(recs) > 1:      # an empty input is rejected for another reason ("all records skipped")
                    yield dict(case, recs=recs[:i] + recs[i + 1:])
            for i, rec in enumerate(recs):
                rid, name = rec[0], rec[1]
                if len(rec) > 2:
                    yield dict(case, recs=recs[:i] + [[rid, name]] + recs[i + 1:])
                if name != rid:
                    yield dict(case, recs=recs[:i] + [[rid, rid] + rec[2:]] + recs[i + 1:])
                for k in range(len(rid)):
                    short = rid[:k] + rid[k + 1:]
                    yield dict(case, recs=recs[:i] + [[short, short if name == rid else name] + rec[2:]] + recs[i + 1:])
        elif kind == "fix":
            taken = case["taken"]
            if len(taken) > 40:
                size = len(taken) // 2
                while size >= 8:
                    for start in range(0, len(taken), size):
                        yield dict(case, taken=taken[:start] + taken[start + size:])
                    size //= 2
            else:
                for i in range(len(taken)):
                    yield dict(case, taken=taken[:i] + taken[i + 1:])
            if case.get("acc") is not None:
                yield dict(case, acc=None)
            if case["name"] != case["rid"]:
                yield dict(case, name=case["rid"])
            if case["orig"] is not None:
                yield dict(case, orig=None)
            if case["index"] != 1:
                yield dict(case, index=1)
            rid = case["rid"]
            for k in range(len(rid)):
                short = rid[:k] + rid[k + 1:]
                yield dict(case, rid=short, name=short if case["name"] == rid else case["name"])
        elif kind == "unique":
            for i in range(len(case["taken"])):
                yield dict(case, taken=case["taken"][:i] + case["taken"][i + 1:])
        elif kind == "bio":
            feats = case["feats"]
            for i in range(len(feats)):
                yield dict(case, feats=feats[:i] + feats[i + 1:])
            for i, feat in enumerate(feats):
                for key in ("locus_tag", "gene", "protein_id"):
                    if feat[key] is not None and sum(feat[k] is not None for k in ("locus_tag", "gene", "protein_id")) > 1:
                        yield dict(case, feats=feats[:i] + [dict(feat, **{key: None})] + feats[i + 1:])
        else:
            ops = case["ops"]
            for i in range(len(ops)):
                yield dict(case, ops=ops[:i] + ops[i + 1:])


def loc_str(loc: Dict[str, Any]) -> str:
    """Biopython's str() of an exact location, written independently"""
    def part(p: List[int]) -> str:
        sign = {1: "(+)", -1: "(-)", 0: "(?)", None: ""}[p[2]]
        return f"[{p[0]}:{p[1]}]{sign}"
    if loc["c"]:
        return "join{" + ", ".join(part(p) for p in loc["parts"]) + "}"
    return part(loc["parts"][0])


def sanitised(name: str) -> str:
    """what `_sanitise_id_value` makes of a name (only used to *build* interesting inputs)"""
    return "".join("_" if ch in set("!\"#$%&()*+,:; \r\n\t=>?@[]^`'{|}/ ") else ch for ch in name)


def sorted_cdss(cdss: List[Any]) -> List[Any]:
    return sorted(cdss, key=lambda c: (c[0], str(c[1])))


PROP = C16
