"""C08 — genes belong to exactly the areas that contain them, whatever the build order.

Implementation under test: Record.get_cds_features_within_location, Record.add_cds_feature,
Record._link_cds_to_parent, Record.add_protocluster / add_candidate_cluster / add_subregion /
add_region (through create_regions), CDSCollection.add_cds, Protocluster.add_cds, Region.add_cds.

Two case kinds:
  lookup   a gene layout (inserted in the given order) and a list of (location, with_overlapping) queries
  history  a sequence of add_cds_feature / add_<area> / create_regions calls and a second ordering of
           the same calls; observables: children sets, cds.region, definition_cdses
"""
from __future__ import annotations

import itertools
import random
from typing import Any, Dict, Iterator, List, Optional, Tuple

from ..framework import Judgement, Property, err_kind
from . import common

REC = "antismash/common/secmet/record.py"
FEAT = "antismash/common/secmet/features/"


def simple(lo: int, hi: int, s: Any = 1) -> Dict[str, Any]:
    return {"c": False, "parts": [[lo, hi, s]]}


def compound(parts: List[List[Any]]) -> Dict[str, Any]:
    return {"c": True, "parts": parts}


def loc_key(loc: Dict[str, Any]) -> str:
    return repr((loc["c"], loc["parts"]))


class C08(Property):
    ID = "C08"
    SHAPE = [(REC, "Record.get_cds_features_within_location"), (REC, "Record._link_cds_to_parent"),
             (REC, "Record.add_cds_feature"), (REC, "Record.add_protocluster"),
             (REC, "Record.add_candidate_cluster"), (REC, "Record.add_subregion"), (REC, "Record.add_region"),
             (REC, "Record.clear_regions"), (REC, "Record.clear_subregions"),
             (REC, "Record.clear_candidate_clusters"), (REC, "Record.clear_protoclusters"),
             (REC, "Record.get_cds_features"), (REC, "Record.get_cds_by_name"),
             (REC, "Record.get_cds_features_within_regions"), (REC, "Record.add_feature"),
             (REC, "Record.strip_antismash_annotations"),
             ("antismash/common/secmet/qualifiers/gene_functions.py", "GeneFunctionAnnotations.__init__"), ("antismash/common/secmet/qualifiers/gene_functions.py", "GeneFunctionAnnotations.add"),
             ("antismash/common/secmet/qualifiers/gene_functions.py", "GeneFunctionAnnotations.clear"), ("antismash/common/secmet/qualifiers/gene_functions.py", "GeneFunctionAnnotations.get_by_function"),
             ("antismash/common/secmet/qualifiers/gene_functions.py", "GeneFunctionAnnotations.get_by_tool"), ("antismash/common/secmet/qualifiers/gene_functions.py", "GeneFunctionAnnotations.__iter__"),
             ("antismash/common/secmet/qualifiers/gene_functions.py", "GeneFunctionAnnotations.__len__"), ("antismash/common/secmet/qualifiers/gene_functions.py", "_GeneFunctionAnnotation.__eq__"),
             (FEAT + "cds_feature.py", "CDSFeature.strip_antismash_annotations"),
             (FEAT + "cdscollection.py", "CDSCollection.__init__"),
             (FEAT + "cdscollection.py", "CDSCollection.__contains__"),
             (FEAT + "cdscollection.py", "_CDSCache.__contains__"),
             (FEAT + "cdscollection.py", "_SectionedCDSTuple.index"),
             (FEAT + "cdscollection.py", "_SectionedCDSTuple._lookup"),
             (FEAT + "protocluster.py", "Protocluster.__init__"),
             (FEAT + "protocluster.py", "SideloadedProtocluster.__init__"),
             (FEAT + "protocluster.py", "SideloadedProtocluster.definition_cdses"),
             (FEAT + "subregion.py", "SideloadedSubRegion.__init__"),
             (FEAT + "subregion.py", "SubRegion.__init__"),
             (FEAT + "candidate_cluster/structures.py", "CandidateCluster.__init__"),
             (FEAT + "region/structures.py", "Region.__init__"),
             (FEAT + "cdscollection.py", "_CDSCache.features"),
             (FEAT + "cdscollection.py", "_CDSCache._regen_cache"),
             (FEAT + "cdscollection.py", "_SectionedCDSCache._regen_cache"),
             (FEAT + "cdscollection.py", "_SectionedCDSTuple.__new__"),
             (FEAT + "cdscollection.py", "CDSCollection.cds_children"),
             (FEAT + "cdscollection.py", "CDSCollection.crosses_origin"),
             (FEAT + "cdscollection.py", "CDSCollection.add_cds"),
             (FEAT + "cdscollection.py", "_CDSCache.add_cds"),
             (FEAT + "cdscollection.py", "_SectionedCDSCache.add_cds"),
             (FEAT + "protocluster.py", "Protocluster.add_cds"),
             (FEAT + "protocluster.py", "Protocluster.definition_cdses"),
             (FEAT + "region/structures.py", "Region.add_cds"),
             (FEAT + "feature.py", "Feature.__lt__"), (FEAT + "feature.py", "Feature.is_contained_by"),
             (FEAT + "feature.py", "Feature.overlaps_with"), (FEAT + "feature.py", "Feature.crosses_origin"),
             ("antismash/common/secmet/locations.py", "location_contains_other"),
             ("antismash/common/secmet/locations.py", "locations_overlap"),
             ("antismash/common/secmet/locations.py", "location_bridges_origin"),
             ("antismash/common/secmet/locations.py", "split_origin_bridging_location")]
    RULE = ("lookup: gene layouts (simple, multi-exon, origin-spanning, both strands; nested, identical starts, "
            "identical keys; inserted in random order) x queries (every simple interval, origin-spanning two-part, "
            "linear two-part, negative start) x both flags; exhaustive over all layouts of <= 3 genes on a line/ring of "
            "length 4 and <= 2 genes on length 5 (quick) / <= 3 genes on length 6 and <= 4 on length 4 (thorough, deep) "
            "with every query, plus random layouts of up to 12 genes on lengths up "
            "to 10^6, a quarter of them the nested shape (a long gene reaching into the query with shorter genes between its "
            "start and the query start); history: random protocluster/candidate/subregion layouts with create_regions, genes with core "
            "annotations, two random interleavings of the same calls; half of the histories are one ordering with clear_regions / "
            "clear_subregions / clear_candidate_clusters / clear_protoclusters, re-adding of cleared collections, a second "
            "create_regions, and observing calls in between (get_cds_features, cds_children with its three sections, "
            "get_cds_by_name, get_cds_features_within_regions) whose returned values are compared and checked against the spec; non-trivial = a query/area that keeps some gene "
            "and rejects another; distinct by canonical input")
    TRUSTED = ["bisect.bisect_left is modelled by its contract (partition point on a sorted list); sortedness of the "
               "gene list is a proved invariant and is re-checked on the implementation's gene order in every case",
               "Biopython CompoundLocation.start/end/parts, location ordering via Feature.__lt__ (shared C04 model)",
               "locations of candidate clusters and regions are taken from the implementation (C05/C06 own them); "
               "create_regions is replayed in the model as one add_region per region it produced",
               "position/numbering of areas in the record's lists are not observed (get_cds_features_within_regions is "
               "compared as a set); sections of collections that are or were somebody's child are compared with the model "
               "but specified only as a cover of the gene list (they depend on the path the gene arrived by)",
               "genes whose origin-spanning location cannot be split (split_origin_bridging_location raises), "
               "duplicate gene names, mixed-strand compounds are not generated"]

    # ------------------------------------------------------------------ location generators
    @staticmethod
    def all_simple(n: int, strands=(1,)) -> List[Dict[str, Any]]:
        return [simple(lo, hi, s) for lo in range(n) for hi in range(lo + 1, n + 1) for s in strands]

    @staticmethod
    def all_bridging(n: int, strands=(1,)) -> List[Dict[str, Any]]:
        out = []
        for x in range(1, n):
            for y in range(1, x + 1):
                for s in strands:
                    if s == -1:
                        out.append(compound([[0, y, -1], [x, n, -1]]))
                    else:
                        out.append(compound([[x, n, s], [0, y, s]]))
        return out

    @staticmethod
    def all_two_part(n: int) -> List[Dict[str, Any]]:
        return [compound([[a, b, 1], [c, d, 1]]) for a, b, c, d in itertools.combinations(range(n + 1), 4)]

    def rand_gene_loc(self, rng: random.Random, n: int, circular: bool, anchors: List[int]) -> Dict[str, Any]:
        strand = rng.choice([1, 1, -1])
        r = rng.random()

        def coord() -> int:
            if anchors and rng.random() < 0.6:
                return min(n, max(0, rng.choice(anchors) + rng.choice([-1, 0, 0, 0, 1])))
            return rng.randrange(0, n + 1)
        if circular and n >= 4 and r < 0.18:
            x = rng.randrange(2, n)
            y = rng.randrange(1, x)
            upper = [[x, n, strand]]
            lower = [[0, y, strand]]
            if rng.random() < 0.3 and x >= y + 3:       # an extra exon before the origin-spanning pair
                m = rng.randrange(y + 1, x - 1)
                upper = [[m, rng.randrange(m + 1, x), strand]] + upper
            if rng.random() < 0.2 and y >= 3:            # the lower section does not start at 0
                lower = [[rng.randrange(1, y), y, strand]]
            parts = upper + lower
            if strand == -1:
                parts = parts[::-1]
            return compound(parts)
        if r < 0.35 and n >= 6:
            k = rng.choice([2, 2, 3])
            cuts = sorted({coord() for _ in range(2 * k)})
            cuts = cuts[:len(cuts) // 2 * 2]
            parts = [[cuts[i], cuts[i + 1], strand] for i in range(0, len(cuts) - 1, 2)]
            if len(parts) >= 2:
                if strand == -1:
                    parts = parts[::-1]
                return compound(parts)
        a, b = coord(), coord()
        if a == b:
            b = a + 1 if a < n else a - 1
        return simple(min(a, b), max(a, b), strand)

    def rand_area_loc(self, rng: random.Random, n: int, circular: bool, anchors: List[int]) -> Dict[str, Any]:
        def coord() -> int:
            if anchors and rng.random() < 0.7:
                return min(n, max(0, rng.choice(anchors) + rng.choice([-1, 0, 0, 1])))
            return rng.randrange(0, n + 1)
        if circular and n >= 4 and rng.random() < 0.3:
            x = max(2, min(n - 1, coord()))
            y = max(1, min(x - 1, coord()))
            return compound([[x, n, 1], [0, y, 1]])
        a, b = coord(), coord()
        if a == b:
            b = a + 1 if a < n else a - 1
        return simple(min(a, b), max(a, b), 1)

    def rand_query(self, rng: random.Random, n: int, circular: bool, anchors: List[int]) -> Dict[str, Any]:
        r = rng.random()
        if r < 0.55:
            q = self.rand_area_loc(rng, n, False, anchors)
            q["parts"][0][2] = rng.choice([1, -1, None])
            if rng.random() < 0.04:
                q["parts"][0][0] = -rng.choice([1, 5])
            return q
        if r < 0.8 and circular:
            return self.rand_area_loc(rng, n, True, anchors)
        if n >= 4:
            cuts = sorted(rng.sample(range(n + 1), 4))
            return compound([[cuts[0], cuts[1], 1], [cuts[2], cuts[3], 1]])
        return simple(0, n, 1)

    def rand_layout(self, rng: random.Random, n: int, circular: bool, k: int) -> List[Dict[str, Any]]:
        anchors = [rng.randrange(0, n + 1) for _ in range(rng.choice([1, 2, 3]))] + [0, n]
        genes, seen = [], set()
        for _ in range(k * 3):
            if len(genes) >= k:
                break
            loc = self.rand_gene_loc(rng, n, circular, anchors)
            key = loc_key(loc)
            if key in seen:
                continue
            seen.add(key)
            genes.append({"id": len(genes), "loc": loc})
        self._anchors = anchors
        return genes

    # ------------------------------------------------------------------ case generators
    def cases(self, rng: random.Random, tier: str, deep: bool) -> Iterator[Dict[str, Any]]:
        big = deep or tier == "thorough"
        total = 0
        if big:
            scopes = [(6, 3, None), (4, 4, None)]
            note = "all layouts of <= 3 genes on length 6 and <= 4 genes on length 4"
        else:
            scopes = [(4, 3, None), (5, 2, None), (5, 3, 300)]
            note = "all layouts of <= 3 genes on length 4 and <= 2 genes on length 5; 600 sampled 3-gene layouts on length 5"
        for n, k, sample in scopes:
            for case in self.small_scope(n, rng, k, sample):
                total += len(case["qs"])
                yield case
        self.exhaustive_done = True
        self.extra_coverage = {"small_scope_lookups": total, "small_scope": note}
        self.extra_evaluations = total
        for _ in range(12000 if big else 1500):
            yield self.random_lookup(rng)
        for _ in range(12000 if big else 1500):
            yield self.random_history(rng)

    def small_scope(self, n: int, rng: random.Random, max_genes: int, sample: Optional[int]) -> Iterator[Dict[str, Any]]:
        """every layout of up to `max_genes` genes (with `sample`: only that many random layouts of exactly
           `max_genes` genes) on a line and a ring of length n, each with every query"""
        for circular in (False, True):
            locs = self.all_simple(n, strands=(1,))
            # a few reverse-strand twins (same key, different location string)
            locs += [simple(lo, hi, -1) for lo, hi in ((0, 2), (1, n))]
            if circular:
                locs += self.all_bridging(n, strands=(1,)) + [compound([[0, 1, -1], [n - 1, n, -1]])]
            queries = [(q, ov) for q in self.all_simple(n) + (self.all_bridging(n) if circular else [])
                       + self.all_two_part(n) for ov in (False, True)]
            if sample is None:
                combos: Any = itertools.chain.from_iterable(
                    itertools.combinations(range(len(locs)), k) for k in range(1, max_genes + 1))
            else:
                combos = [rng.sample(range(len(locs)), max_genes) for _ in range(sample)]
            for combo in combos:
                order = list(combo)
                rng.shuffle(order)
                genes = [{"id": i, "loc": locs[j]} for i, j in enumerate(order)]
                yield {"f": "lookup", "len": n, "circ": circular, "genes": genes,
                       "qs": [{"q": q, "ov": ov} for q, ov in queries]}

    @staticmethod
    def nested_layout(rng: random.Random, n: int) -> Tuple[List[Dict[str, Any]], List[Dict[str, Any]]]:
        """a long gene reaching into the query, with shorter genes between its start and the query's start
           (nested in it / ending before the query / ending exactly at the query's start), and genes behind"""
        s = rng.randrange(n // 3, 2 * n // 3)
        e = rng.randrange(s + 1, min(n, s + max(2, n // 4)) + 1)
        long_start = rng.randrange(0, max(1, s // 2))
        long_end = rng.choice([s + 1, rng.randrange(s + 1, n + 1), e, n])
        locs = [simple(long_start, long_end, rng.choice([1, -1]))]
        for _ in range(rng.choice([1, 1, 2, 3, 5])):
            a = rng.randrange(long_start, s)
            b = rng.choice([s, s - 1, rng.randrange(a + 1, s + 1)])
            if b > a:
                locs.append(simple(a, b, rng.choice([1, -1])))
        if rng.random() < 0.5:       # a second, even longer gene around everything
            locs.append(simple(max(0, long_start - 1), n, 1))
        for _ in range(rng.choice([0, 1, 2])):
            a = rng.randrange(s, n)
            locs.append(simple(a, rng.randrange(a + 1, n + 1), rng.choice([1, -1])))
        genes, seen = [], set()
        for loc in locs:
            if loc_key(loc) not in seen:
                seen.add(loc_key(loc))
                genes.append({"id": len(genes), "loc": loc})
        qs = [{"q": simple(s, e, 1), "ov": True}, {"q": simple(s, e, 1), "ov": False},
              {"q": simple(s, min(n, e + 1), None), "ov": True}]
        return genes, qs

    def random_lookup(self, rng: random.Random) -> Dict[str, Any]:
        n = rng.choice([6, 8, 10, 12, 20, 30, 30, 60, 100, 1000, 10**6])
        circular = rng.random() < 0.5
        if n >= 12 and rng.random() < 0.25:
            genes, qs = self.nested_layout(rng, n)
            rng.shuffle(genes)
            for i, g in enumerate(genes):
                g["id"] = i
            return {"f": "lookup", "len": n, "circ": circular, "genes": genes, "qs": qs}
        k = rng.choice([1, 2, 3, 4, 5, 6, 8, 12])
        genes = self.rand_layout(rng, n, circular, k)
        rng.shuffle(genes)
        for i, g in enumerate(genes):
            g["id"] = i
        qs = []
        anchors = self._anchors + [p[0] for g in genes for p in g["loc"]["parts"]] + \
            [p[1] for g in genes for p in g["loc"]["parts"]]
        for _ in range(rng.choice([4, 8, 16])):
            qs.append({"q": self.rand_query(rng, n, circular, anchors), "ov": rng.random() < 0.5})
        # whole record and every gene's own location
        qs.append({"q": simple(0, n, 1), "ov": rng.random() < 0.5})
        g = rng.choice(genes)
        if len(g["loc"]["parts"]) <= 2:
            qs.append({"q": g["loc"], "ov": rng.random() < 0.5})
        return {"f": "lookup", "len": n, "circ": circular, "genes": genes, "qs": qs}

    def random_history(self, rng: random.Random) -> Dict[str, Any]:
        n = rng.choice([12, 20, 30, 40, 60, 100, 1000])
        circular = rng.random() < 0.55
        anchors = [rng.randrange(0, n + 1) for _ in range(rng.choice([2, 3, 4]))] + [0, n]
        # product names of which one contains another (as antiSMASH's real rule names do), next to unrelated ones
        products = rng.choice([["NRPS", "NRPS-like"], ["terpene", "terpene-precursor"], ["T1PKS", "PKS", "transAT-PKS"],
                               ["a", "ab", "b"], ["pa", "pb"], ["RiPP-like", "RiPP"]])
        protos = []
        for i in range(rng.choice([0, 1, 1, 2, 2, 3])):
            loc = self.rand_area_loc(rng, n, circular, anchors)
            core = self.core_inside(rng, loc, n)
            protos.append({"id": 100 + i, "kind": "sideproto" if rng.random() < 0.2 else "proto", "loc": loc,
                           "core": core, "product": rng.choice(products)})
        subs = []
        for i in range(rng.choice([0, 0, 1, 1, 2])):
            subs.append({"id": 200 + i, "kind": "sub", "loc": self.rand_area_loc(rng, n, circular, anchors),
                         "sideloaded": rng.random() < 0.2})
        if not protos and not subs:
            subs.append({"id": 200, "kind": "sub", "loc": self.rand_area_loc(rng, n, circular, anchors)})
        cands = []
        if protos:
            for i in range(rng.choice([1, 1, 2])):
                members = sorted(rng.sample(range(len(protos)), rng.randrange(1, len(protos) + 1)))
                if any(c["kids"] == [protos[m]["id"] for m in members] for c in cands):
                    continue
                cands.append({"id": 300 + i, "kind": "cand", "kids": [protos[m]["id"] for m in members]})
        area_anchors = anchors + [p[j] for a in protos + subs for p in a["loc"]["parts"] for j in (0, 1)] \
            + [p[j] for a in protos for p in a["core"]["parts"] for j in (0, 1)]
        genes, seen = [], set()
        for _ in range(rng.choice([2, 3, 4, 5, 6, 8]) * 2):
            loc = self.rand_gene_loc(rng, n, circular, area_anchors)
            if loc_key(loc) in seen:
                continue
            seen.add(loc_key(loc))
            ann = self.rand_annotation_history(rng, products)
            genes.append({"id": len(genes), "loc": loc, "ann": ann, "cores": self.carried_cores(ann)})
        genes = genes[:rng.choice([2, 3, 4, 5, 6, 8])]
        with_regions = rng.random() < 0.8
        register_protos = [p["id"] for p in protos if rng.random() < 0.8]
        ops = self.interleave(rng, genes, register_protos, [s["id"] for s in subs], [c["id"] for c in cands], with_regions)
        ops2 = self.interleave(rng, genes, register_protos, [s["id"] for s in subs], [c["id"] for c in cands], with_regions)
        if rng.random() < 0.03 and genes:      # a refused duplicate location
            dup = dict(genes[0], id=len(genes))
            ops.append(["cds", dup["id"]])
            ops2.append(["cds", dup["id"]])
            genes.append(dup)
        case = {"f": "history", "len": n, "circ": circular, "genes": genes, "protos": protos, "subs": subs,
                "cands": cands, "ops": ops, "ops2": ops2}
        if rng.random() < 0.5:
            case["ops"] = case["ops2"] = self.with_clears(rng, case)
        elif cands and genes and rng.random() < 0.3:
            # a gene gets its core annotation after its protocluster listed it, then candidate / regions hand it over again
            cand = rng.choice(cands)
            proto = [p for p in protos if p["id"] in cand["kids"]][0]
            seq = [["cds", g["id"]] for g in genes] + [["area", k] for k in cand["kids"]]
            for g in rng.sample(genes, min(len(genes), 2)):
                seq.append(["annotate", g["id"], ["add", 1, "rules", "late", proto["product"]]])
            seq += [["area", cand["id"]]] + [["area", s["id"]] for s in subs] + ([["regions"]] if rng.random() < 0.7 else [])
            case["ops"] = case["ops2"] = seq
        return case

    @staticmethod
    def rand_annotation_history(rng: random.Random, products: List[str]) -> List[List[Any]]:
        """calls on the gene's GeneFunctionAnnotations before it meets the record: add (function, tool, description,
           product) and clear (through CDSFeature.strip_antismash_annotations); a third of the genes are annotated,
           stripped and annotated again (a rerun on an annotated record), identical annotations come back after a strip"""
        def add() -> List[Any]:
            fn = rng.choice([1, 1, 1, 2, 0])
            return ["add", fn, rng.choice(["rules", "smcogs"]), rng.choice(["d1", "d2"]),
                    rng.choice(products) if fn == 1 or rng.random() < 0.2 else ""]
        ops = [add() for _ in range(rng.choice([0, 1, 1, 2, 3]))]
        if rng.random() < 0.35:
            first = list(ops)
            ops.append(["clear"])
            for _ in range(rng.choice([0, 1, 2])):
                ops.append(rng.choice(first) if first and rng.random() < 0.4 else add())
        return ops

    @staticmethod
    def carried_list(ann: List[List[Any]]) -> List[Any]:
        carried: List[Any] = []
        for op in ann:
            if op[0] == "clear":
                carried = []
            elif op[1:] not in carried:
                carried.append(op[1:])
        return carried

    @classmethod
    def carried_cores(cls, ann: List[List[Any]]) -> List[str]:
        return [a[3] for a in cls.carried_list(ann) if a[0] == 1]

    @staticmethod
    def with_clears(rng: random.Random, case: Dict[str, Any]) -> List[List[Any]]:
        """one ordering with clear_* calls, re-adding of cleared collections, a second create_regions and
           observing calls in between (get_cds_features, cds_children incl. sections, get_cds_by_name,
           get_cds_features_within_regions)"""
        base = [o for o in case["ops"]]
        area_ids = {"protos": [p["id"] for p in case["protos"]], "subs": [s["id"] for s in case["subs"]],
                    "cands": [c["id"] for c in case["cands"]]}
        all_ids = area_ids["protos"] + area_ids["subs"] + area_ids["cands"]
        out: List[List[Any]] = []
        regions_alive = False
        registered = {"protos": set(), "subs": set(), "cands": set()}
        kind_of = {i: k for k, ids in area_ids.items() for i in ids}
        pending = list(base)
        gene_ids = [g["id"] for g in case["genes"]]
        products = sorted({p["product"] for p in case["protos"]})
        retired: set = set()
        ever_added: set = set()

        def observe() -> None:
            r = rng.random()
            if r < 0.2:
                out.append(["peek_cds"])
            elif r < 0.3 and all_ids and gene_ids:
                out.append(["has", rng.choice(all_ids), rng.choice(gene_ids)])
            elif r < 0.4 and all_ids and gene_ids:
                aid, gid_ = rng.choice(all_ids), rng.choice(gene_ids)
                out.append(["has", aid, gid_])
                if rng.random() < 0.97:
                    out.append(["index_if", aid, gid_])       # resolved below: asked only when listed (else IndexError)
                else:
                    out.append(["index", aid, gid_])
            elif r < 0.55 and all_ids:
                out.append(["peek", rng.choice(all_ids)])
            elif r < 0.75:
                out.append(["peek_region", rng.randrange(0, 4)])
            elif r < 0.9 and gene_ids:
                added = [o[1] for o in out if o[0] == "cds"]
                if added and rng.random() < 0.97:
                    out.append(["name", rng.choice(added)])
                elif rng.random() < 0.1:
                    out.append(["name", 99])           # KeyError ends the history
            else:
                out.append(["within_regions"])
        while pending:
            op = pending.pop(0)
            if op[0] == "regions":
                if regions_alive or not (registered["subs"] or registered["cands"]):
                    continue
                regions_alive = True
            elif op[0] == "area":
                if op[1] in retired:
                    continue
                registered[kind_of[op[1]]].add(op[1])
                ever_added.add(op[1])
            out.append(op)
            # annotations are rewritten on a gene (in the record or not yet), or the whole record is stripped for a rerun;
            # collections that met the old annotations are not reused afterwards (their definition sets are history)
            if products and gene_ids and rng.random() < 0.2:
                r = rng.random()
                waiting = [o[1] for o in pending if o[0] == "cds"]
                pick = (lambda: rng.choice(waiting)) if waiting and rng.random() < 0.7 else (lambda: rng.choice(gene_ids))
                if r < 0.6:
                    fn = rng.choice([1, 1, 2])
                    out.append(["annotate", pick(),
                                ["add", fn, rng.choice(["rules", "smcogs"]), rng.choice(["d1", "d2"]),
                                 rng.choice(products) if fn == 1 else ""]])
                elif r < 0.8:
                    out.append(["strip_gene", pick()])
                else:
                    out.append(["strip"])
                    for ids in registered.values():
                        ids.clear()
                    regions_alive = False
                # (collections that met the old annotations may come back: each meeting re-evaluates, see defs_replay)
            for _ in range(rng.choice([0, 0, 1, 1, 2])):
                observe()
            if rng.random() < 0.22:
                what = rng.choice(["regions", "subs", "cands", "protos", "regions"])
                out.append(["clear", what])
                if what == "regions":
                    regions_alive = False
                else:
                    cleared = list(registered[what])
                    registered[what].clear()
                    if what == "protos":
                        cleared += list(registered["cands"])
                        registered["cands"].clear()
                    if regions_alive and not (registered["subs"] or registered["cands"]):
                        regions_alive = False
                    # some of the cleared collections come back later
                    for i in cleared:
                        if rng.random() < 0.6 and i not in retired:
                            pending.insert(rng.randrange(0, len(pending) + 1), ["area", i])
                if rng.random() < 0.6:
                    pending.insert(rng.randrange(0, len(pending) + 1), ["regions"])
                observe()
        for _ in range(rng.choice([1, 2, 3])):
            observe()
        return out

    @staticmethod
    def core_inside(rng: random.Random, loc: Dict[str, Any], n: int) -> Dict[str, Any]:
        parts = loc["parts"]
        if len(parts) == 2 and rng.random() < 0.5:
            x = rng.randrange(parts[0][0], parts[0][1])
            y = rng.randrange(1, parts[1][1] + 1)
            return compound([[x, n, 1], [0, y, 1]])
        lo0, hi0, _ = rng.choice(parts)
        a = rng.randrange(lo0, hi0)
        b = rng.randrange(a + 1, hi0 + 1)
        return simple(a, b, 1)

    @staticmethod
    def interleave(rng: random.Random, genes: List[Dict[str, Any]], protos: List[int], subs: List[int],
                   cands: List[int], with_regions: bool) -> List[List[Any]]:
        """a random order of the calls; create_regions comes after every candidate/subregion"""
        mode = rng.choice(["genes-first", "areas-first", "mixed", "mixed"])
        gene_ops = [["cds", g["id"]] for g in genes]
        area_ops = [["area", a] for a in protos + subs + cands]
        rng.shuffle(gene_ops)
        rng.shuffle(area_ops)
        if with_regions:
            area_ops.append(["regions"])
        if mode == "genes-first":
            return gene_ops + area_ops
        if mode == "areas-first":
            return area_ops + gene_ops
        out: List[List[Any]] = []
        gi, ai = 0, 0
        while gi < len(gene_ops) or ai < len(area_ops):
            if ai >= len(area_ops) or (gi < len(gene_ops) and rng.random() < 0.5):
                out.append(gene_ops[gi])
                gi += 1
            else:
                out.append(area_ops[ai])
                ai += 1
        return out

    # ------------------------------------------------------------------ implementation adapter
    @staticmethod
    def make_cds(gene: Dict[str, Any]) -> Any:
        from antismash.common.secmet.qualifiers.gene_functions import GeneFunction
        from antismash.common.secmet.test.helpers import DummyCDS
        cds = DummyCDS(location=common.make_location(gene["loc"]), locus_tag=f"g{gene['id']}", translation="MMM")
        if "ann" in gene:
            for op in gene["ann"]:
                if op[0] == "clear":
                    cds.strip_antismash_annotations()
                else:
                    cds.gene_functions.add(GeneFunction(op[1]), op[2], op[3], op[4] or None)
        else:
            for product in gene.get("cores", []):
                cds.gene_functions.add(GeneFunction.CORE, "tool", "desc", product)
        return cds

    @staticmethod
    def annotation_views(cds: Any) -> Dict[str, Any]:
        """what the gene says it carries, three ways: iteration, the per-function index, the per-tool index"""
        from antismash.common.secmet.qualifiers.gene_functions import GeneFunction

        def row(a: Any) -> List[Any]:
            return [a.function.value, a.tool, a.description, a.product or ""]
        gf = cds.gene_functions
        return {"iter": [row(a) for a in gf], "len": len(gf),
                "by_function": {str(f.value): [row(a) for a in gf.get_by_function(f)] for f in GeneFunction
                                if gf.get_by_function(f)},
                "by_tool": {t: [row(a) for a in gf.get_by_tool(t)] for t in ("rules", "smcogs") if gf.get_by_tool(t)}}

    def run_impl(self, case: Dict[str, Any]) -> Dict[str, Any]:
        if case["f"] == "lookup":
            return self.run_lookup(case)
        return self.run_history(case)

    def run_lookup(self, case: Dict[str, Any]) -> Dict[str, Any]:
        from antismash.common.secmet.test.helpers import DummyRecord
        rec = DummyRecord(length=case["len"], circular=case["circ"])
        try:
            for gene in case["genes"]:
                rec.add_cds_feature(common.dummy_cds(gene["loc"], f"g{gene['id']}"))
        except Exception as exc:  # pylint: disable=broad-except
            return {"err": err_kind(exc), "msg": str(exc)[:200]}
        import bisect
        feats = list(rec.get_cds_features())
        out: Dict[str, Any] = {"order": [int(c.get_name()[1:]) for c in feats], "found": [],
                               "bisect": [bisect.bisect_right(feats, common.dummy_cds(g["loc"], f"g{g['id']}"))
                                          for g in case["genes"]]}
        for query in case["qs"]:
            try:
                found = rec.get_cds_features_within_location(common.make_location(query["q"]),
                                                             with_overlapping=query["ov"])
                out["found"].append([int(c.get_name()[1:]) for c in found])
            except Exception as exc:  # pylint: disable=broad-except
                out["found"].append({"err": err_kind(exc), "msg": str(exc)[:200]})
        return out

    def execute(self, case: Dict[str, Any], ops: List[List[Any]]) -> Dict[str, Any]:
        """runs one ordering on fresh objects; returns observations and the regions created"""
        from antismash.common.secmet.features import CandidateCluster, Protocluster, SubRegion
        from antismash.common.secmet.features.protocluster import SideloadedProtocluster
        from antismash.common.secmet.features.subregion import SideloadedSubRegion
        from antismash.common.secmet.features.candidate_cluster import CandidateClusterKind
        from antismash.common.secmet.test.helpers import DummyRecord
        n, circular = case["len"], case["circ"]
        rec = DummyRecord(length=n, circular=circular)
        objs: Dict[int, Any] = {}
        descr: Dict[int, Dict[str, Any]] = {}
        try:
            for p in case["protos"]:
                if p["kind"] == "sideproto":
                    objs[p["id"]] = SideloadedProtocluster(common.make_location(p["core"]), common.make_location(p["loc"]),
                                                           "t", p["product"])
                else:
                    objs[p["id"]] = Protocluster(common.make_location(p["core"]), common.make_location(p["loc"]),
                                                 tool="t", product=p["product"], cutoff=0, neighbourhood_range=0,
                                                 detection_rule="r")
                descr[p["id"]] = dict(p, kids=[])
            for s in case["subs"]:
                if s.get("sideloaded"):
                    objs[s["id"]] = SideloadedSubRegion(common.make_location(s["loc"]), "t", label="l")
                else:
                    objs[s["id"]] = SubRegion(common.make_location(s["loc"]), tool="t", label="l")
                descr[s["id"]] = {"id": s["id"], "kind": "sub", "loc": s["loc"], "kids": []}
            for c in case["cands"]:
                objs[c["id"]] = CandidateCluster(CandidateClusterKind.NEIGHBOURING, [objs[k] for k in c["kids"]],
                                                 circular_wrap_point=n if circular else None)
                descr[c["id"]] = {"id": c["id"], "kind": "cand", "loc": common.location_json(objs[c["id"]].location),
                                  "kids": [descr[k] for k in c["kids"]]}
        except Exception as exc:  # pylint: disable=broad-except
            return {"skip": f"construction: {err_kind(exc)} {str(exc)[:100]}"}
        genes = {g["id"]: g for g in case["genes"]}
        cdses: Dict[int, Any] = {}
        ids_of = {id(obj): i for i, obj in objs.items()}
        regions: List[Dict[str, Any]] = []
        model_ops: List[List[Any]] = []
        log: List[List[List[int]]] = []
        generation = [0]

        def gid(cds: Any) -> int:
            return int(cds.get_name()[1:])

        def new_regions(known: set) -> List[Dict[str, Any]]:
            """descriptors (with fresh ids) for the Region objects the record holds that were not seen before"""
            fresh = [r for r in rec.get_regions() if id(r) not in known]
            out = []
            keyed = sorted(fresh, key=lambda r: sorted(ids_of[id(k)] for k in list(r.subregions) + list(r.candidate_clusters)))
            for rank, region in enumerate(keyed):
                kids = sorted(ids_of[id(k)] for k in list(region.subregions) + list(region.candidate_clusters))
                rid = 400 + 20 * generation[0] + rank
                d = {"id": rid, "kind": "region", "loc": common.location_json(region.location),
                     "kids": [descr[k] for k in kids]}
                objs[rid] = region
                descr[rid] = d
                ids_of[id(region)] = rid
                regions.append(d)
                out.append(d)
            if fresh:
                generation[0] += 1
            # the order add_region was called in (the record keeps its own order)
            return out

        made = {i: self.make_cds(g) for i, g in genes.items()}     # the objects exist before they are added
        ann_views = [[i, self.annotation_views(made[i])] for i in sorted(made) if "ann" in genes[i]]
        hist = {i: list(g.get("ann", [])) for i, g in genes.items()}     # calls made on each gene's container so far
        rewrites: List[Any] = []

        def rewrite(gid_: int, annop: List[Any]) -> None:
            """the annotation call has been made on the real object; tell the model if the gene is in the record"""
            hist[gid_].append(annop)
            if gid_ in cdses:
                model_ops.append(["set_cores", gid_, list(hist[gid_])])
                rewrites.append([gid_, self.annotation_views(made[gid_])])
        for step, op in enumerate(ops):
            try:
                kind = op[0]
                generic = (step + len(ops)) % 2 == 0       # half of the additions go through Record.add_feature
                if kind == "cds":
                    cds = made[op[1]]
                    model_ops.append(["cds", dict(genes[op[1]], ann=list(hist[op[1]])) if "ann" in genes[op[1]]
                                      else genes[op[1]]])
                    (rec.add_feature if generic else rec.add_cds_feature)(cds)
                    cdses[op[1]] = cds
                elif kind == "area":
                    obj = objs[op[1]]
                    model_ops.append(["area", descr[op[1]]])
                    if generic:
                        rec.add_feature(obj)
                    else:
                        {"proto": rec.add_protocluster, "sideproto": rec.add_protocluster, "sub": rec.add_subregion,
                         "cand": rec.add_candidate_cluster}[descr[op[1]]["kind"]](obj)
                elif kind == "regions":
                    known = {id(r) for r in rec.get_regions()}
                    try:
                        rec.create_regions()
                    except Exception as exc:  # pylint: disable=broad-except
                        return {"skip": f"create_regions: {err_kind(exc)} {str(exc)[:100]}"}
                    for d in new_regions(known):
                        model_ops.append(["area", d])
                elif kind == "clear":
                    known = {id(r) for r in rec.get_regions()}
                    try:
                        {"regions": rec.clear_regions, "subs": rec.clear_subregions,
                         "cands": rec.clear_candidate_clusters, "protos": rec.clear_protoclusters}[op[1]]()
                    except Exception as exc:  # pylint: disable=broad-except
                        return {"skip": f"clear_{op[1]}: {err_kind(exc)} {str(exc)[:100]}"}
                    if op[1] == "regions":
                        model_ops.append(["clear_regions"])
                    else:
                        model_ops.append(["clear_" + op[1], new_regions(known)])
                elif kind == "peek_cds":
                    model_ops.append(["peek_cds"])
                    log.append([[gid(c) for c in rec.get_cds_features()]])
                elif kind in ("peek", "peek_region"):
                    if kind == "peek_region":
                        live = rec.get_regions()
                        if not live:
                            continue
                        aid = ids_of[id(live[op[1] % len(live)])]
                    else:
                        aid = op[1]
                    model_ops.append(["peek", aid])
                    ch = objs[aid].cds_children
                    log.append([[gid(c) for c in ch], [gid(c) for c in ch.pre_origin],
                                [gid(c) for c in ch.cross_origin], [gid(c) for c in ch.post_origin]])
                elif kind == "name":
                    model_ops.append(["name", op[1]])
                    cds = rec.get_cds_by_name(f"g{op[1]}")
                    log.append([[gid(cds), int(cds.location.start), int(cds.location.end)]])
                elif kind == "annotate":
                    from antismash.common.secmet.qualifiers.gene_functions import GeneFunction
                    made[op[1]].gene_functions.add(GeneFunction(op[2][1]), op[2][2], op[2][3], op[2][4] or None)
                    rewrite(op[1], op[2])
                elif kind == "strip_gene":
                    made[op[1]].strip_antismash_annotations()
                    rewrite(op[1], ["clear"])
                elif kind == "strip":
                    if rec.get_regions():          # so that the clears inside do not build transient regions
                        rec.clear_regions()
                        model_ops.append(["clear_regions"])
                    rec.strip_antismash_annotations()
                    model_ops += [["clear_protos", []], ["clear_cands", []], ["clear_subs", []], ["clear_regions"]]
                    for c in rec.get_cds_features():
                        rewrite(gid(c), ["clear"])
                elif kind == "has":
                    model_ops.append(["has", op[1], op[2]])
                    log.append([[1 if made[op[2]] in objs[op[1]] else 0]])
                elif kind == "index":
                    model_ops.append(["index", op[1], op[2]])
                    log.append([[int(objs[op[1]].cds_children.index(made[op[2]]))]])
                elif kind == "index_if":
                    if made[op[2]] in objs[op[1]]:
                        model_ops.append(["index", op[1], op[2]])
                        log.append([[int(objs[op[1]].cds_children.index(made[op[2]]))]])
                elif kind == "within_regions":
                    model_ops.append(["within_regions"])
                    log.append([sorted(gid(c) for c in rec.get_cds_features_within_regions())])
                else:
                    raise ValueError(kind)
            except Exception as exc:  # pylint: disable=broad-except
                return {"err": err_kind(exc), "at": step, "msg": str(exc)[:200], "model_ops": model_ops,
                        "regions": regions, "log": log, "areas": [descr[i] for i in sorted(descr)],
                        "ann_views": ann_views, "rewrites": rewrites}
        children = [[i, sorted(gid(c) for c in objs[i].cds_children)] for i in sorted(objs)]
        sections = []
        for i in sorted(objs):
            ch = objs[i].cds_children
            sections.append([i, [sorted(gid(c) for c in sec) for sec in (ch.pre_origin, ch.cross_origin, ch.post_origin)]])
        region_of = []
        for op in ops:
            if op[0] == "cds":
                reg = cdses[op[1]].region
                region_of.append([op[1], None if reg is None else ids_of.get(id(reg), -1)])
        defs = [[p["id"], sorted(gid(c) for c in objs[p["id"]].definition_cdses)] for p in case["protos"]]
        return {"order": [gid(c) for c in rec.get_cds_features()],
                "children": children, "sections": sections, "region": sorted(region_of), "defs": defs,
                "regions": regions, "model_ops": model_ops, "log": log, "ann_views": ann_views, "rewrites": rewrites,
                "areas": [descr[i] for i in sorted(descr)]}

    def run_history(self, case: Dict[str, Any]) -> Dict[str, Any]:
        import logging
        logging.disable(logging.CRITICAL)      # add_region logs before raising
        try:
            first = self.execute(case, case["ops"])
            if "skip" in first:
                return first
            second = first if case["ops2"] == case["ops"] else self.execute(case, case["ops2"])
        finally:
            logging.disable(logging.NOTSET)
        return {"first": first, "second": second}

    # ------------------------------------------------------------------ driver protocol
    def driver_line(self, case: Dict[str, Any], obs: Dict[str, Any]) -> Optional[Dict[str, Any]]:
        if case["f"] == "lookup":
            return {"f": "lookup", "len": case["len"], "genes": case["genes"], "qs": case["qs"],
                    "order": obs.get("order", [])}
        if "skip" in obs or "skip" in obs.get("second", {}):
            return None
        return {"f": "history", "len": case["len"], "ops": obs["first"]["model_ops"],
                "ops2": obs["second"]["model_ops"], "areas": obs["first"].get("areas", []),
                "impl_log": obs["first"].get("log", [])}

    @staticmethod
    def canon_obs(o: Dict[str, Any], with_order: bool) -> Dict[str, Any]:
        out = {"children": sorted(o["children"]), "region": sorted(o["region"]), "defs": sorted(o["defs"]),
               "sections": sorted(o["sections"])}
        if with_order:
            out["order"] = o["order"]
            out["log"] = o["log"]
        return out

    def judge(self, case: Dict[str, Any], obs: Dict[str, Any], drv: Optional[Dict[str, Any]]) -> Judgement:
        if drv is None:
            return Judgement(True, True, tags=("skipped:" + str(obs.get("skip", obs.get("second", {}).get("skip")))[:40],))
        if "err" in drv and "model" not in drv:
            return Judgement(False, True, detail=f"driver error {drv['err']}")
        scope = bool(drv.get("scope", True))
        if case["f"] == "lookup":
            return self.judge_lookup(case, obs, drv, scope)
        return self.judge_history(case, obs, drv, scope)

    def judge_lookup(self, case: Dict[str, Any], obs: Dict[str, Any], drv: Dict[str, Any], scope: bool) -> Judgement:
        model = drv["model"]
        tags = ["lookup", "in-scope" if scope else "out-of-scope", "circular" if case["circ"] else "linear"]
        if "err" in obs:
            corr = model.get("err") == obs["err"].split(":")[0]
            return Judgement(corr, not scope, in_scope=scope, tags=tuple(tags + ["err:" + obs["err"]]),
                             detail="" if corr else f"model {model} vs implementation {obs}")
        if "ok" not in model:
            return Judgement(False, True, in_scope=scope, tags=tuple(tags), detail=f"model {model} vs implementation ok")
        m = model["ok"]
        corr = m["order"] == obs["order"] and m["found"] == obs["found"] and m.get("bisect") == obs.get("bisect")
        detail = ""
        if not corr:
            bad = [i for i, (a, b) in enumerate(zip(m["found"], obs["found"])) if a != b]
            detail = (f"gene order model {m['order']} vs implementation {obs['order']}; " if m["order"] != obs["order"] else "") + \
                (f"bisect_right indices model {m.get('bisect')} vs implementation {obs.get('bisect')}; " if m.get("bisect") != obs.get("bisect") else "") + \
                (f"query {case['qs'][bad[0]]}: model {m['found'][bad[0]]} vs implementation {obs['found'][bad[0]]}" if bad else "")
        spec = drv["spec"]
        spec_ok = True
        nontrivial = False
        if scope:
            spec_ok = bool(spec["sorted"]) and bool(spec["complete"]) and spec["found"] == obs["found"]
            if not spec_ok:
                bad = [i for i, (a, b) in enumerate(zip(spec["found"], obs["found"])) if a != b]
                detail = (f"lookup spec fails: query {case['qs'][bad[0]]} expected {spec['found'][bad[0]]} got "
                          f"{obs['found'][bad[0]]} (gene order {obs['order']})" if bad else
                          f"gene order not sorted/complete: {obs['order']}") + ("; " + detail if detail else "")
            nontrivial = any(isinstance(f, list) and 0 < len(f) < len(case["genes"]) for f in obs["found"])
        if any(len(g["loc"]["parts"]) > 1 for g in case["genes"]):
            tags.append("compound-gene")
        return Judgement(corr, spec_ok, in_scope=scope, nontrivial=nontrivial, tags=tuple(tags), detail=detail)

    def judge_history(self, case: Dict[str, Any], obs: Dict[str, Any], drv: Dict[str, Any], scope: bool) -> Judgement:
        tags = ["history", "in-scope" if scope else "out-of-scope", "circular" if case["circ"] else "linear"]
        first, second = obs["first"], obs["second"]
        details = []
        corr = True
        for name, o, m in (("first", first, drv["model"]), ("second", second, drv["model2"])):
            if not drv.get("strict", True) and "beyond-model" not in tags:
                tags.append("beyond-model")       # a gene re-annotated after a collection listed it: followed by runLoose
            if "err" in o:
                ok = m.get("err") == o["err"].split(":")[0]
                tags.append("err:" + o["err"])
            else:
                ok = "ok" in m and self.canon_obs(m["ok"], True) == self.canon_obs(o, True)
            if not ok:
                corr = False
                details.append(f"{name} ordering: model {m} vs implementation "
                               f"{ {k: v for k, v in o.items() if k not in ('model_ops', 'regions', 'areas', 'ann_views')} }"[:900])
        spec_ok = True
        nontrivial = False
        if scope and "err" not in first and "err" not in second:
            spec = drv["spec"]
            got = self.canon_obs(first, False)
            want_region = sorted([g, (r[0] if len(r) == 1 else (None if not r else ["ambiguous"] + r))]
                                 for g, r in spec["region"])
            if got["region"] != want_region:
                spec_ok = False
                details.append(f"spec fails on region: expected {want_region} got {got['region']}")
            beyond = "beyond-model" in tags
            have_defs = dict((i, v) for i, v in got["defs"])
            for i, v in drv.get("defs_replay", []):
                if have_defs.get(i) != v:      # decided each time gene and protocluster meet, with the annotations of that moment
                    spec_ok = False
                    details.append(f"definition genes of {i}: expected {v} (every meeting of gene and protocluster "
                                   f"re-evaluates the gene's current annotations) got {have_defs.get(i)}")
            for k in ("children", "defs", "sections"):
                if k == "defs" and beyond:
                    continue      # the static reading applies only while annotations precede the meetings
                have = dict((i, v) for i, v in got[k])
                for i, v in spec[k]:
                    if v is not None and have.get(i) != v:      # null: the spec does not determine it (not alive)
                        spec_ok = False
                        details.append(f"spec fails on {k} of {i}: expected {v} got {have.get(i)}")
            views = dict((i, v) for i, v in first.get("ann_views", []))
            pairs = [(e, views.get(e["id"]), True) for e in drv.get("ann", [])] + \
                [(e, rv[1], False) for e, rv in zip(drv.get("ann_rewrites", []), first.get("rewrites", []))]
            if len(drv.get("ann_rewrites", [])) != len(first.get("rewrites", [])):
                spec_ok = False
                details.append("annotation rewrites of the model and of the run do not line up")
            if first.get("rewrites"):
                tags.append("with-reannotation")
            for entry, v, initial in pairs:
                if v is None:
                    continue
                if initial:      # what the gene carried when it was built: the calls of the case's own history
                    pass
                carried = entry["carried"]
                if initial:
                    carried = self.carried_list([g["ann"] for g in case["genes"] if g["id"] == entry["id"]][0])
                want = {"iter": carried, "len": len(carried),
                        "by_function": {str(f): [a for a in carried if a[0] == f] for f in sorted({a[0] for a in carried})},
                        "by_tool": {t: [a for a in carried if a[1] == t] for t in sorted({a[1] for a in carried})}}
                if v != want or (not initial and entry["cores"] != entry["model_cores"]):
                    spec_ok = False
                    details.append(f"gene {entry['id']}: annotations carried after {[g['ann'] for g in case['genes'] if g['id'] == entry['id']]} "
                                   f"should be {want}, the gene reports {v}")
                if any(op[0] == "clear" for g in case["genes"] if g["id"] == entry["id"] for op in g["ann"]):
                    tags.append("stripped-gene")
            bad = [i for i, ok in enumerate(drv.get("log_ok", [])) if not ok]
            if bad or len(drv.get("log_ok", [])) != len(first["log"]):
                spec_ok = False
                peeks = [o for o in first["model_ops"] if o[0] in ("peek_cds", "peek", "name", "within_regions", "has", "index")]
                details.append(f"observation {bad[:1]} fails its spec: call {peeks[bad[0]] if bad else '?'} returned "
                               f"{first['log'][bad[0]] if bad else first['log']}")
            if first["log"]:
                tags.append("with-observations")
            if any(o[0] == "clear" for o in case["ops"]):
                tags.append("with-clear")
            if self.canon_obs(second, False) != got:
                spec_ok = False
                details.append(f"build order changes the result: {got} vs {self.canon_obs(second, False)}")
            ngenes = len(first["order"])
            nontrivial = any(0 < len(c) < ngenes for _, c in first["children"])
            if first["regions"]:
                tags.append("with-regions")
            if any(len(a["loc"]["parts"]) > 1 for a in first["regions"]):
                tags.append("origin-spanning-region")
        elif scope and ("err" in first) != ("err" in second):
            spec_ok = False
            details.append("one ordering raises, the other does not")
        return Judgement(corr, spec_ok, in_scope=scope, nontrivial=nontrivial, tags=tuple(tags),
                         detail="; ".join(details)[:1500])

    # ------------------------------------------------------------------ shrinking
    def shrink(self, case: Dict[str, Any]) -> Iterator[Dict[str, Any]]:
        if case["f"] == "lookup":
            if len(case["qs"]) > 1:
                half = len(case["qs"]) // 2
                yield dict(case, qs=case["qs"][:half])
                yield dict(case, qs=case["qs"][half:])
                for i in range(len(case["qs"])):
                    yield dict(case, qs=[case["qs"][i]])
            if len(case["genes"]) > 1:
                for i in range(len(case["genes"])):
                    yield dict(case, genes=case["genes"][:i] + case["genes"][i + 1:])
            return
        for i, g in enumerate(case["genes"]):
            rest = case["genes"][:i] + case["genes"][i + 1:]
            yield dict(case, genes=rest, ops=[o for o in case["ops"] if o != ["cds", g["id"]]],
                       ops2=[o for o in case["ops2"] if o != ["cds", g["id"]]])
        for kind in ("subs", "cands", "protos"):
            for i, a in enumerate(case[kind]):
                if kind == "protos" and any(a["id"] in c["kids"] for c in case["cands"]):
                    continue
                rest = case[kind][:i] + case[kind][i + 1:]
                yield dict(case, **{kind: rest}, ops=[o for o in case["ops"] if o != ["area", a["id"]]],
                           ops2=[o for o in case["ops2"] if o != ["area", a["id"]]])
        if ["regions"] in case["ops"]:
            yield dict(case, ops=[o for o in case["ops"] if o != ["regions"]],
                       ops2=[o for o in case["ops2"] if o != ["regions"]])


PROP = C08
