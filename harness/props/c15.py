"""C15 — ORF scanning finds exactly the open reading frames of the searched sequence.

Implementation under test: `antismash.common.all_orfs` — `scan_orfs`, `find_intergenic_areas`,
`find_all_orfs` (with `_find_cross_origin_intergenic`, `create_feature_from_location`) and
`get_trimmed_orf`, all called in-process on real `FeatureLocation`/`CDSFeature`/`Record` objects.

Case kinds (plain JSON):
  scan    : seq, fwd, offset, minlen, reclen (null = record_length None), rec (null or the
            record the window was cut from: then `location.extract(Seq(rec))` is compared
            with the ORF's own nucleotides)
  gaps    : start, end, genes [[lo, hi], ...], minlen, pad
  allorfs : rec, circular, genes [[lo, hi, strand], ...], area (null | [lo, hi] | [[lo, hi], [lo, hi]]),
            minlen, pad
  trim    : rec, lo, hi, fwd, incl, minlen, maxlen
"""
from __future__ import annotations

import itertools
import random
from typing import Any, Dict, Iterator, List, Optional, Tuple

from ..framework import Judgement, Property, err_kind
from . import common

KF_MINLEN = "KF-C15-minlen-exclusive"

STARTS = ("ATG", "GTG", "TTG")
STOPS = ("TAA", "TAG", "TGA")


def _loc_key(loc: Dict[str, Any]) -> str:
    return repr((loc["c"], [tuple(p) for p in loc["parts"]]))


def _sort_key(loc: Dict[str, Any]) -> int:
    return min(min(p[0] for p in loc["parts"]), max(p[1] for p in loc["parts"]))


class C15(Property):
    ID = "C15"
    USES_TABLES = True
    SHAPE = [("antismash/common/all_orfs.py", q) for q in (
        "START_CODONS", "STOP_CODONS", "scan_orfs", "find_intergenic_areas",
        "_find_cross_origin_intergenic", "find_all_orfs", "create_feature_from_location",
        "get_trimmed_orf")] + [
        ("antismash/common/secmet/record.py", "Record.get_aa_translation_from_location"),
        ("antismash/common/secmet/locations.py", "get_sub_location_from_offsets"),
        ("antismash/common/secmet/record.py", "Record.get_cds_features_within_location"),
        ("antismash/common/secmet/record.py", "Record.get_cds_features"),
        ("antismash/common/secmet/features/feature.py", "Feature.crosses_origin"),
        ("antismash/common/secmet/features/feature.py", "Feature.__lt__"),
        ("antismash/common/secmet/locations.py", "location_bridges_origin"),
    ]
    RULE = ("scan: DNA built from planted start/stop codons, random triplets and single frame-shifting bases over "
            "ACGT + N/ambiguity codes + lower case, cut as a window out of a random record (linear, or a ring with "
            "the window placed across the origin in ~half the cases; offsets from -2L to 2L), both strands, "
            "minimum lengths at 0/6/9/60 and at len-1/len/len+1 of an ORF present; thorough/deep: every string of "
            "length <= 9 over {A,T,G} x both strands x minLen in {0,6,9} x four (offset, L) placements. "
            "gaps: sorted gene layouts with nested/overlapping/short genes around the padding; allorfs: records "
            "with planted ORFs, genes, whole-record / linear-area / origin-crossing-area searches; trim: CDS with "
            "planted in-frame starts x include/min/max options. non-trivial = at least one ORF (scan/allorfs), "
            "at least one gene (gaps), a start found (trim); distinct by canonical input")
    TRUSTED = ["Biopython: Seq.reverse_complement (complement table regenerated from Bio.Data.IUPACData each run), "
               "SimpleLocation/CompoundLocation.extract (modelled as slice / reverse-complement / concatenation in "
               "part order; the harness compares with the real extract on every record-derived case), Seq.translate "
               "(modelled for ACGT codons with the forward table / stop codons regenerated from Bio.Data.CodonTable; "
               "codons with ambiguity codes are left to Biopython and checked in Python only)",
               "str.upper() on ASCII input = per-character upper-casing",
               "Python % with a positive modulus = Int.emod; record_length > 0, direction in {1,-1}",
               "Record.get_cds_features_within_location is executed for real inside find_all_orfs; the model runs C08's "
               "Lean model of it (Model/Lookup.lean) on the record's full gene list, and the spec is judged against ALL genes",
               "get_sub_location_from_offsets is C09's model (Model/ProtDna.lean)"]

    def __init__(self) -> None:
        self.exhaustive_done = False
        self.extra_coverage: Dict[str, Any] = {}

    # ------------------------------------------------------------------ generators
    @staticmethod
    def rand_dna(rng: random.Random, n_tokens: int, ambiguity: float = 0.05, lower: float = 0.1) -> str:
        out: List[str] = []
        for _ in range(n_tokens):
            r = rng.random()
            if r < 0.25:
                tok = rng.choice(STARTS)
            elif r < 0.42:
                tok = rng.choice(STOPS)
            elif r < 0.47:
                tok = rng.choice("ACGT")          # frame shift
            else:
                tok = "".join(rng.choice("ACGT") for _ in range(3))
            if rng.random() < ambiguity:
                i = rng.randrange(len(tok))
                tok = tok[:i] + rng.choice("NRYKMSWBDHVN") + tok[i + 1:]
            if rng.random() < lower:
                tok = tok.lower()
            out.append(tok)
        return "".join(out)

    @classmethod
    def rand_record(cls, rng: random.Random, n_tokens: int) -> str:
        """half the time a sequence of planted ORFs (start, a few codons that may themselves be starts or
        stops, stop) on either strand separated by short fillers that shift the frame"""
        if rng.random() < 0.4:
            return cls.rand_dna(rng, n_tokens)
        out: List[str] = []
        total = 0
        while total < 3 * n_tokens:
            filler = "".join(rng.choice("ACGT") for _ in range(rng.choice([0, 0, 1, 2, 3, 4])))
            body = []
            for _ in range(rng.choice([0, 0, 1, 2, 3, 5])):
                r = rng.random()
                body.append(rng.choice(STARTS) if r < 0.2 else rng.choice(STOPS) if r < 0.3
                            else "".join(rng.choice("ACGT") for _ in range(3)))
            orf = rng.choice(STARTS) + "".join(body) + rng.choice(STOPS)
            if rng.random() < 0.08:
                i = rng.randrange(len(orf))
                orf = orf[:i] + rng.choice("NRYKMSWBDHV") + orf[i + 1:]
            if rng.random() < 0.15:
                orf = orf.lower()
            if rng.random() < 0.5:
                orf = cls.revcomp(orf)
            out += [filler, orf]
            total += len(filler) + len(orf)
        return "".join(out)

    @staticmethod
    def revcomp(s: str) -> str:
        from Bio.Seq import Seq
        return str(Seq(s).reverse_complement())

    def orf_lengths(self, seq: str) -> List[int]:
        """lengths of the stretches start..stop (python-side helper for choosing minimum lengths)"""
        up = seq.upper()
        out = []
        for frame in range(3):
            start = None
            for i in range(frame, len(up) - 2, 3):
                c = up[i:i + 3]
                if start is None and c in STARTS:
                    start = i
                elif c in STOPS and start is not None:
                    out.append(i + 3 - start)
                    start = None
        return out

    def pick_minlen(self, rng: random.Random, window: str) -> int:
        lens = self.orf_lengths(window)
        r = rng.random()
        if lens and r < 0.45:
            return rng.choice(lens) + rng.choice([-1, 0, 0, 1, -3, 2])
        return rng.choice([0, 0, 6, 9, 10, 12, 60])

    def scan_case(self, rng: random.Random) -> Dict[str, Any]:
        fwd = rng.random() < 0.5
        mode = rng.random()
        if mode < 0.6:       # window cut out of a ring
            rec = self.rand_record(rng, rng.choice([3, 5, 8, 12, 20, 30]))
            L = len(rec)
            n = L if rng.random() < 0.25 else rng.randrange(L // 2, L + 1)
            r = rng.random()
            if r < 0.5 and n:    # across the origin
                o = (L - rng.randrange(0, n + 1)) % L
            else:
                o = rng.randrange(0, L)
            offset = o + L * rng.choice([0, 0, -1, -1, 1, -2])
            chunk = "".join(rec[(offset + k) % L] for k in range(n))
            window = chunk if fwd else self.revcomp(chunk)
            return {"kind": "scan", "seq": window, "fwd": fwd, "offset": offset,
                    "minlen": self.pick_minlen(rng, window), "reclen": L, "rec": rec}
        if mode < 0.8:       # window cut out of a line, record_length None or the line's length
            rec = self.rand_record(rng, rng.choice([3, 6, 10, 20]))
            L = len(rec)
            offset = rng.randrange(0, L + 1) if rng.random() < 0.2 else rng.randrange(0, L // 3 + 1)
            n = rng.randrange((L - offset) // 2, L - offset + 1)
            chunk = rec[offset:offset + n]
            window = chunk if fwd else self.revcomp(chunk)
            return {"kind": "scan", "seq": window, "fwd": fwd, "offset": offset,
                    "minlen": self.pick_minlen(rng, window), "reclen": rng.choice([None, None, L]), "rec": rec}
        # free: any offset / record length (also shorter than the window: correspondence only)
        window = self.rand_dna(rng, rng.choice([2, 4, 8, 16, 40]), ambiguity=0.1, lower=0.2)
        n = len(window)
        reclen = rng.choice([None, max(n, 1), n + 3, max(n - 1, 1), max(n // 2, 1), 7, 2 * n + 1])
        offset = rng.choice([0, 1, 2, 3, -1, -2, -3, n, -n, 305, -17, rng.randrange(-50, 50)])
        if reclen is None:
            offset = abs(offset)
        return {"kind": "scan", "seq": window, "fwd": fwd, "offset": offset,
                "minlen": self.pick_minlen(rng, window), "reclen": reclen, "rec": None}

    def gaps_case(self, rng: random.Random) -> Dict[str, Any]:
        pad = rng.choice([0, 0, 3, 10, 10, 25])
        ngenes = rng.choice([0, 1, 2, 3, 4, 6])
        genes = []
        pos = rng.choice([0, 0, 5, 40])
        for _ in range(ngenes):
            r = rng.random()
            if r < 0.25 and genes:    # nested in / overlapping the previous gene
                prev = genes[-1]
                lo = rng.randrange(prev[0], prev[1] + 1)
                hi = lo + rng.choice([1, 3, pad, 2 * pad, 2 * pad + 1, 30, prev[1] - lo + rng.choice([-pad, 0, pad, 5])])
                hi = max(hi, lo + 1)
            else:
                lo = pos + rng.choice([0, 0, 1, pad, 2 * pad, 2 * pad + 1, 7, 50])
                hi = lo + rng.choice([1, 3, pad, 2 * pad - 1, 2 * pad, 2 * pad + 1, 30, 90])
                hi = max(hi, lo + 1)
            genes.append([lo, hi])
            pos = max(pos, hi)
        genes.sort(key=lambda g: g[0])
        if rng.random() < 0.15 and len(genes) > 1:
            rng.shuffle(genes)     # any order is fine: the function orders by start itself (D66-C15)
        end_all = max([g[1] for g in genes] + [pos]) + rng.choice([0, 1, pad, 40])
        if rng.random() < 0.15:     # an origin-spanning gene, listed first as the record would: join{[x, L), [0, y)}
            L = max(end_all, 12) + rng.choice([5, 30])
            strand = rng.choice([1, -1])
            y = rng.randrange(1, min(30, L // 3) + 1)
            parts = [[rng.randrange(max(L - 40, y + 1), L), L, strand], [0, y, strand]]
            genes.insert(0, parts if strand == 1 else parts[::-1])
            end_all = L
        start = rng.choice([0, 0, 0, 5, 12, end_all // 2])
        end = rng.choice([end_all, end_all, max(end_all - 7, 0), end_all // 2 + 1])
        return {"kind": "gaps", "start": start, "end": end, "genes": genes,
                "minlen": rng.choice([0, 0, 1, 3, 6, 20, 60]), "pad": pad}

    def plant(self, rng: random.Random, seq: List[str], L: int, pos: int, length: int, fwd: bool) -> None:
        """write an ORF of `length` nt whose first base (in coordinate order) is `pos` (mod L)"""
        body = "".join(rng.choice(["GCT", "AAA", "CCC", "GGT", "ACG", "CAT"]) for _ in range(length // 3 - 2))
        orf = rng.choice(STARTS) + body + rng.choice(STOPS)
        text = orf if fwd else self.revcomp(orf)
        for k, ch in enumerate(text):
            seq[(pos + k) % L] = ch

    def allorfs_case(self, rng: random.Random) -> Dict[str, Any]:
        L = rng.choice([60, 90, 100, 150, 240])
        seq = [rng.choice("ACGT") for _ in range(L)]
        if rng.random() < 0.1:
            seq[rng.randrange(L)] = "N"
        circular = rng.random() < 0.6
        minlen = rng.choice([6, 9, 12, 15, 30, 60])
        for _ in range(rng.choice([1, 2, 3, 5])):
            length = rng.choice([minlen - 3, minlen, minlen + 3, minlen + 9, 21, 33])
            length = max(length, 6)
            if circular and rng.random() < 0.5:
                pos = (L - rng.randrange(1, length)) % L
            else:
                pos = rng.randrange(0, max(L - length, 1))
            self.plant(rng, seq, L, pos, length, rng.random() < 0.5)
        pad = rng.choice([0, 3, 10])
        genes = []
        pos = rng.choice([0, 3, 20])
        for _ in range(rng.choice([0, 1, 2, 3])):
            lo = pos + rng.choice([0, 5, 20, 40])
            hi = lo + rng.choice([3, 9, 21, 30, 60])
            if hi > L:
                break
            genes.append([lo, hi, rng.choice([1, -1])])
            pos = max(hi - rng.choice([0, 0, 4, 12]), lo + 1)   # distinct starts: secmet rejects equal locations
        genes = [self.maybe_split(rng, g) for g in genes]
        area: Any = None
        r = rng.random()
        if circular and r < 0.5:
            a = rng.randrange(L // 2, L)
            b = rng.randrange(1, L // 2)
            area = [[a, L], [0, b]]
        elif r < 0.8:
            lo = rng.randrange(0, L // 2)
            hi = rng.randrange(lo + 1, L + 1)
            area = [lo, hi]
        return {"kind": "allorfs", "rec": "".join(seq), "circular": circular, "genes": genes, "area": area,
                "minlen": minlen, "pad": pad}

    @staticmethod
    def maybe_split(rng: random.Random, gene: List[int]) -> Any:
        """now and then a gene becomes two exons with an intron (parts in transcription order)"""
        lo, hi, strand = gene
        if hi - lo < 9 or rng.random() > 0.15:
            return gene
        cut1 = rng.randrange(lo + 2, hi - 4)
        cut2 = rng.randrange(cut1 + 1, hi - 1)
        parts = [[lo, cut1, strand], [cut2, hi, strand]]
        return parts if strand == 1 else parts[::-1]

    def allorfs_origin_gene_case(self, rng: random.Random) -> Dict[str, Any]:
        """a circular record with an existing CDS running over the origin (join{[x, L), [0, y)}, either strand),
        other genes inside and outside the stretch it covers, ORFs planted inside the stretch it covers and in
        the free middle; searched as a whole, with a non-crossing area and with a crossing area"""
        L = rng.choice([90, 150, 240, 300])
        seq = [rng.choice("ACGT") for _ in range(L)]
        pad = rng.choice([0, 3, 10])
        minlen = rng.choice([6, 9, 12, 30])
        y = rng.randrange(L // 6, L // 2)          # post-origin part [0, y)
        x = rng.randrange(y + L // 4, L - 2)       # pre-origin part [x, L)
        strand = rng.choice([1, -1])
        y0 = 0 if rng.random() < 0.75 or y < 12 else rng.randrange(3, y - 6)   # an intron over the origin: hull starts > 0
        parts = [[x, L, strand], [y0, y, strand]]
        genes: List[Any] = [parts if strand == 1 else parts[::-1]]
        if y0 and rng.random() < 0.7:
            genes.append([0, rng.randrange(1, y0 + 1), rng.choice([1, -1])])          # a gene before that hull
        for _ in range(rng.choice([0, 1, 2])):     # ordinary genes, inside the covered stretch or in the middle
            lo = rng.randrange(0, L - 7)
            hi = min(L, lo + rng.choice([3, 9, 21, 45]))
            if all(isinstance(g[0], list) or (g[0], g[1]) != (lo, hi) for g in genes):
                genes.append([lo, hi, rng.choice([1, -1])])
        for _ in range(rng.choice([1, 2, 3])):     # ORFs inside the stretch the origin-spanning gene covers
            length = max(6, rng.choice([minlen + 3, minlen + 9, 21, 33]))
            if rng.random() < 0.6 and length + 1 < y:
                self.plant(rng, seq, L, rng.randrange(0, y - length), length, rng.random() < 0.5)
            elif x + length + 1 < L:
                self.plant(rng, seq, L, rng.randrange(x, L - length), length, rng.random() < 0.5)
            else:
                self.plant(rng, seq, L, (L - rng.randrange(1, length)) % L, length, rng.random() < 0.5)
        if rng.random() < 0.7:                     # and one in the free middle
            length = max(6, minlen + 3)
            if y + pad + length + 1 < x - pad:
                self.plant(rng, seq, L, rng.randrange(y + pad, x - pad - length), length, rng.random() < 0.5)
        r = rng.random()
        area: Any = None
        if r < 0.35:
            lo = rng.randrange(0, y)               # non-crossing area overlapping the gene's post-origin part
            area = [lo, rng.randrange(lo + 10, L + 1)]
        elif r < 0.5:
            area = [rng.randrange(y, x), L]        # … or its pre-origin part
        elif r < 0.75:
            area = [[rng.randrange(L // 2, L), L], [0, rng.randrange(1, L // 2)]]
        return {"kind": "allorfs", "rec": "".join(seq), "circular": True, "genes": genes, "area": area,
                "minlen": minlen, "pad": pad}

    def allorfs_nested_case(self, rng: random.Random) -> Dict[str, Any]:
        """a long gene reaching into the searched area, later-starting genes nested in / overlapping it that end
        at or before the area's start (or inside it), and ORFs planted inside the long gene's part of the area"""
        L = rng.choice([120, 150, 240, 300])
        seq = [rng.choice("ACGT") for _ in range(L)]
        circular = rng.random() < 0.5
        pad = rng.choice([0, 3, 10])
        minlen = rng.choice([6, 9, 12, 30])
        a = rng.choice([0, 0, 3, 15])
        b = rng.randrange(L // 2, L - 9)
        s = rng.randrange(a + 7, b - 20)                      # area starts inside the long gene
        e = rng.choice([L, L, rng.randrange(b + 1, L + 1), rng.randrange(s + 10, L + 1)])
        genes = [[a, b, rng.choice([1, -1])]]
        for _ in range(rng.choice([1, 1, 2, 3])):
            lo = rng.randrange(a + 1, s)
            r = rng.random()
            hi = s if r < 0.25 else (rng.randrange(lo + 1, s + 1) if r < 0.8 else rng.randrange(s, min(b + 30, L) + 1))
            if hi - lo >= 1 and all(g[0] != lo or g[1] != hi for g in genes):
                genes.append([lo, hi, rng.choice([1, -1])])
        if rng.random() < 0.4 and b + 12 < L:                 # an ordinary later gene
            lo = rng.randrange(b + 1, L - 6)
            genes.append([lo, min(lo + rng.choice([6, 21, 60]), L), rng.choice([1, -1])])
        for _ in range(rng.choice([1, 2, 3])):                # ORFs inside the long gene's part of the area
            length = max(6, rng.choice([minlen + 3, minlen + 9, 21, 33]))
            if s + 1 + length < b:
                self.plant(rng, seq, L, rng.randrange(s + 1, b - length), length, rng.random() < 0.5)
        if rng.random() < 0.7:                                # and one in a genuine gap
            length = max(6, minlen + 3)
            if b + pad + length + 1 < e:
                self.plant(rng, seq, L, rng.randrange(b + pad, e - length), length, rng.random() < 0.5)
        genes = [self.maybe_split(rng, g) for g in genes]
        area: Any = [s, e]
        if circular and e == L and rng.random() < 0.4 and a >= 3:
            area = [[s, L], [0, rng.randrange(1, a + 1)]]     # the same, as the pre-origin part of a crossing area
        return {"kind": "allorfs", "rec": "".join(seq), "circular": circular, "genes": genes, "area": area,
                "minlen": minlen, "pad": pad}

    def trim_case(self, rng: random.Random) -> Dict[str, Any]:
        ncod = rng.choice([2, 4, 6, 10])
        fwd = rng.random() < 0.5
        cods = [rng.choice(STARTS) if rng.random() < 0.5 else "".join(rng.choice("ACGT") for _ in range(3))
                for _ in range(ncod)]
        orf = "".join(cods) + (rng.choice(["", "", "A", "CA"]))
        if rng.random() < 0.1:
            orf = orf.lower()
        n = len(orf)
        opt = lambda vals: rng.choice([None, None, None] + vals)  # noqa: E731
        options = {"incl": opt([0, 1, 3, 4, n // 2, n - 3, n, n + 2]),
                   "minlen": rng.choice([0, 0, 0, 0, 3, 3, 6, n - 3, n, n + 1]),
                   "maxlen": opt([3, 5, 6, 7, 9, n - 1, n, n + 4])}
        text = orf if fwd else self.revcomp(orf)      # the ORF's bases in coordinate order
        strand = 1 if fwd else -1
        shape = rng.random()
        if shape < 0.55:         # one part
            pre = "".join(rng.choice("ACGT") for _ in range(rng.choice([0, 3, 5])))
            post = "".join(rng.choice("ACGT") for _ in range(rng.choice([0, 4, 6])))
            return dict({"kind": "trim", "rec": pre + text + post, "lo": len(pre), "hi": len(pre) + n, "fwd": fwd},
                        **options)
        if shape < 0.8:          # across the origin of a ring: [L-a, L) + [0, n-a)
            a = rng.randrange(1, n)
            filler = "".join(rng.choice("ACGT") for _ in range(rng.choice([1, 4, 9])))
            rec = text[a:] + filler + text[:a]
            L = len(rec)
            parts = [[L - a, L, strand], [0, n - a, strand]]
            circular = True
        else:                    # two or three exons on a line
            cuts = sorted(rng.sample(range(1, n), rng.choice([1, 2]) if n > 2 else 1))
            pieces = [text[i:j] for i, j in zip([0] + cuts, cuts + [n])]
            rec, parts = "", []
            for piece in pieces:
                rec += "".join(rng.choice("ACGT") for _ in range(rng.choice([0, 2, 5])))
                parts.append([len(rec), len(rec) + len(piece), strand])
                rec += piece
            rec += "".join(rng.choice("ACGT") for _ in range(rng.choice([0, 3])))
            circular = False
        if not fwd:
            parts.reverse()      # transcription order
        return dict({"kind": "trim", "rec": rec, "loc": {"c": True, "parts": parts}, "circular": circular, "fwd": fwd},
                    **options)

    @staticmethod
    def trim_loc(case: Dict[str, Any]) -> Dict[str, Any]:
        if "loc" in case:
            return case["loc"]
        return {"c": False, "parts": [[case["lo"], case["hi"], 1 if case["fwd"] else -1]]}

    def cases(self, rng: random.Random, tier: str, deep: bool) -> Iterator[Dict[str, Any]]:
        mult = 10 if deep else 1
        for _ in range(24000 * mult):
            yield self.scan_case(rng)
        for _ in range(8000 * mult):
            yield self.gaps_case(rng)
        for _ in range(1500 * mult):
            r = rng.random()
            yield (self.allorfs_case(rng) if r < 0.45 else self.allorfs_nested_case(rng) if r < 0.75
                   else self.allorfs_origin_gene_case(rng))
        for _ in range(4000 * mult):
            yield self.trim_case(rng)
        if deep:
            yield from self.small_scope(rng, full=(tier == "thorough"))

    def small_scope(self, rng: random.Random, full: bool) -> Iterator[Dict[str, Any]]:
        """every DNA string of length <= 9 over {A,T,G} as the *window*, both strands, minLen in {0,6,9},
        placed in a ring of length len / len+3 at offsets that do / do not cross the origin"""
        total = 0
        for n in range(6, 10):
            words = itertools.product("ATG", repeat=n)
            for tup in words:
                window = "".join(tup)
                if not full and rng.random() > 0.08:
                    continue
                if not any(s in window for s in STARTS) or not any(s in window for s in STOPS):
                    continue     # no ORF possible: covered by the random phase
                for fwd in (True, False):
                    chunk = window if fwd else self.revcomp(window)
                    for L, offset in ((n, 0), (n, -2), (n + 3, n - 1), (n + 3, -n + 4)):
                        rec = [None] * L
                        for k, ch in enumerate(chunk):
                            rec[(offset + k) % L] = ch
                        rec_s = "".join(ch if ch is not None else "C" for ch in rec)
                        for minlen in (0, 6, 9):
                            total += 1
                            yield {"kind": "scan", "seq": window, "fwd": fwd, "offset": offset,
                                   "minlen": minlen, "reclen": L, "rec": rec_s}
        self.exhaustive_done = full
        self.extra_coverage = {"small_scope_cases": total}

    # ------------------------------------------------------------------ implementation adapter
    def run_impl(self, case: Dict[str, Any]) -> Dict[str, Any]:
        kind = case["kind"]
        try:
            if kind == "scan":
                return self.impl_scan(case)
            if kind == "gaps":
                return self.impl_gaps(case)
            if kind == "allorfs":
                return self.impl_allorfs(case)
            if kind == "trim":
                return self.impl_trim(case)
        except Exception as exc:  # pylint: disable=broad-except
            return {"err": err_kind(exc), "msg": str(exc)[:200]}
        raise ValueError(kind)

    def impl_scan(self, case: Dict[str, Any]) -> Dict[str, Any]:
        from antismash.common.all_orfs import scan_orfs
        from Bio.Seq import Seq
        locs = scan_orfs(case["seq"], 1 if case["fwd"] else -1, case["offset"],
                         minimum_length=case["minlen"], record_length=case["reclen"])
        out: Dict[str, Any] = {"locs": [common.location_json(l) for l in locs]}
        if case.get("rec") is not None:
            rec = Seq(case["rec"])
            out["extracted"] = [str(l.extract(rec)) for l in locs]
        return out

    def impl_gaps(self, case: Dict[str, Any]) -> Dict[str, Any]:
        from antismash.common.all_orfs import find_intergenic_areas
        cdses = []
        for g in case["genes"]:
            if isinstance(g[0], list):
                cdses.append(common.dummy_cds({"c": True, "parts": g}, "g" + "_".join(str(p[0]) for p in g)))
            else:
                cdses.append(common.dummy_cds({"c": False, "parts": [[g[0], g[1], 1]]}, f"g{g[0]}_{g[1]}"))
        areas = find_intergenic_areas(case["start"], case["end"], cdses, min_length=case["minlen"],
                                      padding=case["pad"])
        return {"areas": [[int(a), int(b)] for a, b in areas]}

    @staticmethod
    def make_record(case: Dict[str, Any]) -> Any:
        from antismash.common.secmet.test.helpers import DummyCDS, DummyRecord
        feats = []
        for i, g in enumerate(case.get("genes", [])):
            if isinstance(g[0], list):      # several exons, given in transcription order
                loc = {"c": True, "parts": g}
                feats.append(DummyCDS(location=common.make_location(loc), locus_tag=f"g{i}", translation="MMM"))
            else:
                feats.append(DummyCDS(g[0], g[1], g[2], locus_tag=f"g{i}"))
        return DummyRecord(seq=case["rec"], features=feats, circular=bool(case.get("circular")))

    def impl_allorfs(self, case: Dict[str, Any]) -> Dict[str, Any]:
        from antismash.common.all_orfs import find_all_orfs
        from antismash.common.secmet.features import SubRegion
        from antismash.common.secmet.locations import CompoundLocation, FeatureLocation
        from Bio.Seq import Seq
        record = self.make_record(case)
        L = len(record)
        area = None
        spec = case["area"]
        genes_of = lambda feats: [[int(f.location.start), int(f.location.end)] for f in feats]  # noqa: E731
        if spec is None:
            parts = [[0, L, genes_of(record.get_cds_features())]]
            cross = False
        elif isinstance(spec[0], int):
            area = SubRegion(FeatureLocation(spec[0], spec[1], 1), tool="test")
            parts = [[spec[0], spec[1],
                      genes_of(record.get_cds_features_within_location(area.location, with_overlapping=True))]]
            cross = False
        else:
            location = CompoundLocation([FeatureLocation(lo, hi, 1) for lo, hi in spec])
            area = SubRegion(location, tool="test")
            parts = [[int(p.start), int(p.end),
                      genes_of(record.get_cds_features_within_location(p, with_overlapping=True))]
                     for p in location.parts]
            cross = True
        if area is not None:
            record.add_subregion(area)
            assert area.crosses_origin() == cross
        out: Dict[str, Any] = {"parts": parts, "cross": cross, "table": int(record.transl_table),
                               "all_genes": [{"id": int(f.get_name()[1:]), "loc": common.location_json(f.location)}
                                             for f in record.get_cds_features()]}
        try:
            feats = find_all_orfs(record, area, min_length=case["minlen"], max_overlap=case["pad"])
        except Exception as exc:  # pylint: disable=broad-except
            out["err"] = err_kind(exc)
            out["msg"] = str(exc)[:200]
            return out
        items = []
        for f in feats:
            extracted = str(f.location.extract(record.seq))
            prot = str(Seq(extracted).translate(to_stop=True, table=11))
            for bad in "*BJOUZ":
                prot = prot.replace(bad, "X")
            expected = "M" + prot[1:]
            items.append({"loc": common.location_json(f.location), "label": f.get_name(),
                          "translation": str(f.translation), "expected_translation": expected,
                          "extracted": extracted,
                          "names_agree": f.locus_tag == f.protein_id == f.gene == f.get_name()})
        out["features"] = items
        return out

    def impl_trim(self, case: Dict[str, Any]) -> Dict[str, Any]:
        from antismash.common.all_orfs import get_trimmed_orf
        from antismash.common.secmet.test.helpers import DummyCDS, DummyRecord
        record = DummyRecord(seq=case["rec"], circular=bool(case.get("circular")))
        cds = DummyCDS(location=common.make_location(self.trim_loc(case)), locus_tag="orf")
        seq = str(cds.extract(record.seq))
        out: Dict[str, Any] = {"seq": seq}
        try:
            new = get_trimmed_orf(cds, record, include=case["incl"], min_length=case["minlen"],
                                  max_length=case["maxlen"])
        except ValueError as exc:
            if "minimum length cannot be greater" in str(exc):
                out["result"] = "value-error"
                return out
            raise
        if new is None:
            out["result"] = None
        else:
            out["result"] = common.location_json(new.location)
            out["new_seq"] = str(new.location.extract(record.seq))
            out["translation_ok"] = str(new.translation)[1:] == str(
                record.get_aa_translation_from_location(new.location))[1:]
        return out

    # ------------------------------------------------------------------ driver
    def driver_line(self, case: Dict[str, Any], obs: Dict[str, Any]) -> Optional[Dict[str, Any]]:
        kind = case["kind"]
        if kind == "scan":
            return {"kind": kind, "seq": case["seq"], "fwd": case["fwd"], "offset": case["offset"],
                    "minlen": case["minlen"], "reclen": case["reclen"]}
        if kind == "gaps":
            # the gap search reads `cds.location.start` / `.end`: the coordinate hull of a multi-part location
            hulls = [[min(p[0] for p in g), max(p[1] for p in g)] if isinstance(g[0], list) else [g[0], g[1]]
                     for g in case["genes"]]
            return {"kind": kind, "start": case["start"], "end": case["end"], "genes": hulls,
                    "minlen": case["minlen"], "pad": case["pad"], "impl": obs.get("areas", [])}
        if kind == "allorfs":
            if "all_genes" not in obs:
                return None
            spec = case["area"]
            if spec is None:
                area = None
            elif isinstance(spec[0], int):
                area = {"c": False, "parts": [[spec[0], spec[1], 1]]}
            else:
                area = {"c": True, "parts": [[lo, hi, 1] for lo, hi in spec]}
            return {"kind": kind, "rec": case["rec"], "minlen": case["minlen"], "pad": case["pad"],
                    "genes": obs["all_genes"], "area": area, "table": obs["table"],
                    "impl": [f["loc"] for f in obs.get("features", [])]}
        if kind == "trim":
            if "seq" not in obs:
                return None
            return {"kind": kind, "seq": obs["seq"], "loc": self.trim_loc(case),
                    "incl": case["incl"], "minlen": case["minlen"], "maxlen": case["maxlen"]}
        raise ValueError(kind)

    # ------------------------------------------------------------------ judge
    def judge(self, case: Dict[str, Any], obs: Dict[str, Any], drv: Optional[Dict[str, Any]]) -> Judgement:
        kind = case["kind"]
        if drv is None:
            return Judgement(False, False, detail=f"implementation failed before the model could run: {obs}")
        if "err" in drv:
            return Judgement(False, True, detail=f"driver error {drv['err']}")
        return getattr(self, "judge_" + kind)(case, obs, drv)

    def judge_scan(self, case: Dict[str, Any], obs: Dict[str, Any], drv: Dict[str, Any]) -> Judgement:
        if "err" in obs:
            return Judgement(False, False, detail=f"scan_orfs raised {obs['err']}: {obs.get('msg')}")
        locs = obs["locs"]
        scope = bool(drv["scope"])
        corr = locs == drv["model"]
        detail = "" if corr else f"model {drv['model']} vs implementation {locs}"
        minlen = case["minlen"]
        spec = drv["spec"]
        want_ge = [o for o in spec if o["len"] >= minlen]
        want_gt = [o for o in spec if o["len"] > minlen]

        def agrees(want: List[Dict[str, Any]]) -> Tuple[bool, str]:
            if sorted(_loc_key(l) for l in locs) != sorted(_loc_key(o["loc"]) for o in want):
                return False, (f"ORFs of the window (len >= {minlen}): {[(o['s'], o['e'], o['loc']) for o in want_ge]} "
                               f"vs reported {locs}")
            keys = [_sort_key(l) for l in locs]
            if keys != sorted(keys):
                return False, f"not ordered by ascending position: {locs}"
            if "extracted" in obs:
                by_loc = {_loc_key(o["loc"]): o["orf"] for o in want}
                for l, ex in zip(locs, obs["extracted"]):
                    if ex.upper() != by_loc[_loc_key(l)]:
                        return False, f"{l} extracts to {ex!r}, the ORF is {by_loc[_loc_key(l)]!r}"
            return True, ""

        spec_ok, known = True, None
        if scope:
            spec_ok, why = agrees(want_ge)
            if not spec_ok:
                detail = why
                if drv["exact_len"] and agrees(want_gt)[0]:
                    known = KF_MINLEN
        wrapped = any(l["c"] for l in locs)
        tags = ("scan", "fwd" if case["fwd"] else "rev", "ring" if case["reclen"] else "line",
                "wrapped" if wrapped else "unwrapped", "in-scope" if scope else "out-of-scope",
                f"orfs{min(len(locs), 4)}", "extract-checked" if "extracted" in obs else "no-record")
        return Judgement(corr, spec_ok, in_scope=scope and not drv["exact_len"], known=known,
                         nontrivial=bool(locs), tags=tags, detail=detail)

    def judge_gaps(self, case: Dict[str, Any], obs: Dict[str, Any], drv: Dict[str, Any]) -> Judgement:
        if "err" in obs:
            return Judgement(False, False, detail=f"find_intergenic_areas raised {obs['err']}: {obs.get('msg')}")
        corr = obs["areas"] == drv["model"]
        scope = bool(drv["scope"])
        spec_ok = bool(drv["spec_ok"]) if scope else True
        detail = ""
        if not spec_ok:
            detail = f"areas {obs['areas']} are not inside [start, end), long enough and clear of every gene core"
        elif not corr:
            detail = f"model {drv['model']} vs implementation {obs['areas']}"
        tags = ("gaps", "in-scope" if scope else "out-of-scope", f"areas{min(len(obs['areas']), 4)}")
        return Judgement(corr, spec_ok, in_scope=scope, nontrivial=bool(case["genes"]), tags=tags, detail=detail)

    def judge_allorfs(self, case: Dict[str, Any], obs: Dict[str, Any], drv: Dict[str, Any]) -> Judgement:
        model = drv["model"]
        scope = bool(drv["scope"])
        # the gene lists the real record lookup produced vs the modelled lookup (C08's model)
        lookup_ok = obs["parts"] == drv["parts"] and obs["cross"] == drv["cross"]
        lookup_note = "" if lookup_ok else (f"; record lookup returned {obs['parts']}, the genes sharing a base with "
                                            f"the area are {drv['parts']}")
        if "err" in obs:
            corr = model is None and lookup_ok
            return Judgement(corr, corr, in_scope=False, tags=("allorfs", "error"),
                             detail=f"find_all_orfs raised {obs['err']}: {obs.get('msg')}; model {model}{lookup_note}")
        feats = obs["features"]
        if model is None:
            return Judgement(False, True, detail=f"model predicts an assertion failure, implementation returned {feats}")
        # `return sorted(new_features)`: the order is part of the observable (Feature.__lt__, stable)
        canon = lambda items: [(_loc_key(i["loc"]), i["label"]) for i in items]  # noqa: E731
        corr = canon(feats) == canon(model) and lookup_ok
        if corr:   # the modelled translation (null = ambiguity codes, left to Biopython) of every location
            want = {_loc_key(m["loc"]): m["translation"] for m in model}
            corr = all(want[_loc_key(f["loc"])] in (None, f["translation"]) for f in feats)
        detail = "" if corr else f"model {model} vs implementation {[(f['loc'], f['label']) for f in feats]}{lookup_note}"
        spec_ok = True
        for f in feats:
            if f["translation"] != f["expected_translation"] or not f["names_agree"]:
                spec_ok = False
                detail = f"translation {f['translation']} does not match the location's {f['expected_translation']}"
            ex = f["extracted"].upper()
            if len(ex) < 6 or ex[:3] not in STARTS or ex[-3:] not in STOPS or len(ex) % 3 \
                    or any(ex[i:i + 3] in STOPS for i in range(0, len(ex) - 3, 3)):
                spec_ok = False
                detail = f"{f['loc']} extracts to {ex}, which is not an open reading frame"
        if scope and not drv["overlap_ok"]:
            spec_ok = False
            detail = (f"an ORF overlaps an existing gene of the record by more than max_overlap={case['pad']}: "
                      f"ORFs {[f['loc']['parts'] for f in feats]}, genes {case['genes']}{lookup_note}")
        elif scope and not drv["in_gaps"]:
            spec_ok = False
            detail = f"an ORF lies outside the intergenic areas {drv['areas']}: {[f['loc'] for f in feats]}"
        hull = [(min(p[0] for p in g), max(p[1] for p in g)) if isinstance(g[0], list) else (g[0], g[1])
                for g in case["genes"]]
        nested = any(g[0] < h[0] and h[1] <= g[1] for g in hull for h in hull if g is not h)
        tags = ("allorfs", "cross-origin" if obs["cross"] else ("whole" if case["area"] is None else "area"),
                "wrapped" if any(f["loc"]["c"] for f in feats) else "unwrapped", f"orfs{min(len(feats), 4)}",
                "nested-genes" if nested else "plain-genes",
                "multi-exon-genes" if any(isinstance(g[0], list) for g in case["genes"]) else "one-exon-genes",
                "origin-spanning-gene" if any(isinstance(g[0], list) and max(p[1] for p in g) == len(case["rec"])
                                              and case.get("circular") for g in case["genes"]) else "no-origin-gene",
                "translation-modelled" if any(m["translation"] is not None for m in model) else "translation-python-only")
        return Judgement(corr, spec_ok, in_scope=scope, nontrivial=bool(feats), tags=tags, detail=detail)

    def judge_trim(self, case: Dict[str, Any], obs: Dict[str, Any], drv: Dict[str, Any]) -> Judgement:
        if "err" in obs:
            return Judgement(False, False, detail=f"get_trimmed_orf raised {obs['err']}: {obs.get('msg')}")
        res = obs["result"]
        corr = res == drv["model"]
        detail = "" if corr else f"model {drv['model']} vs implementation {res}"
        spec_ok = True
        found = isinstance(res, dict)
        if found:
            new, old = obs["new_seq"], obs["seq"]
            strand = 1 if case["fwd"] else -1
            if not (old.endswith(new) and new[:3] in STARTS and (len(old) - len(new)) % 3 == self.trim_frame(case, len(old))
                    and len(new) > case["minlen"] and all(p[2] == strand for p in res["parts"])
                    and obs["translation_ok"]):
                spec_ok = False
                detail = f"trimmed ORF {res} = {new} is not an in-frame start-codon suffix of {old}"
        shape = "multi-part" if self.trim_loc(case)["c"] else "one-part"
        tags = ("trim", shape, "found" if found else str(res))
        return Judgement(corr, spec_ok, nontrivial=found, tags=tags, detail=detail)

    @staticmethod
    def trim_frame(case: Dict[str, Any], n: int) -> int:
        """residue class mod 3 of the first position searched (0 for ORFs of whole codons)"""
        maxlen = n if case["maxlen"] is None else case["maxlen"]
        return max(0, n - (maxlen - maxlen % 3)) % 3

    # ------------------------------------------------------------------ shrinker
    def shrink(self, case: Dict[str, Any]) -> Iterator[Dict[str, Any]]:
        kind = case["kind"]
        if kind == "scan":
            if case.get("rec") is None:
                seq = case["seq"]
                for i in range(0, len(seq), 3):
                    yield dict(case, seq=seq[:i] + seq[i + 3:])
                for i in range(len(seq)):
                    yield dict(case, seq=seq[:i] + seq[i + 1:])
            else:
                yield dict(case, rec=None)
            if case["minlen"] > 0:
                yield dict(case, minlen=0)
            if case["seq"] != case["seq"].upper():
                yield dict(case, seq=case["seq"].upper(), rec=case["rec"].upper() if case.get("rec") else None)
        elif kind in ("gaps", "allorfs"):
            genes = case["genes"]
            for i in range(len(genes)):
                yield dict(case, genes=genes[:i] + genes[i + 1:])
            if case.get("minlen", 0) > 0 and kind == "gaps":
                yield dict(case, minlen=0)
        elif kind == "trim":
            for key in ("incl", "maxlen"):
                if case[key] is not None:
                    yield dict(case, **{key: None})
            if case["minlen"]:
                yield dict(case, minlen=0)


PROP = C15
