"""C18 — parallel execution gives the sequential result, in order.

Two layers of correspondence (the theorems are about the Lean pool machine, see design/C18.md):

1. *Scheduled* cases (`pf`, `pe`; thousands per run, in-process).  The REAL `parallel_function` /
   `parallel_execute` run on CPython's REAL pool machinery (`Pool._map_async`, `_get_tasks`,
   `MapResult`, the task/result handler threads) with `multiprocessing.Pool` replaced by a
   `ThreadPool` subclass whose tasks stop at a gate at the end of each chunk.  A controller thread
   opens the gates in the order the case's schedule says (any feasible relative completion order,
   a stall until the deadline passes, a worker that turns up dead), so the completion order is
   *chosen*, not hoped for.  The outcome must equal the Lean model's outcome for that schedule, and
   must satisfy the executable spec (`ASV.Parallel.acceptable`).
2. *Real-process* cases (`rpf`, `rpe`, `rec`, `prep`; run in child interpreters by `extra_checks`).
   Unpatched `parallel_function` with cpus 1..16: sleeping tasks that force completion orders unlike
   submission order (the order that really happened is reconstructed from a log and fed to the
   model), raising tasks, a worker killed mid-task, a deadline; real `Record`s (Dummy* builders,
   sectioned CDS tuples, origin-crossing areas) through `sanitise_sequence`, `ensure_cds_info`, an
   identity and an annotating worker, and the whole `pre_process_sequences`, compared as object
   graphs with in-process execution.
"""
from __future__ import annotations

import contextlib
import io
import json
import os
import random
import subprocess
import sys
import threading
import time
from typing import Any, Dict, Iterator, List, Optional, Tuple

from ..framework import REPO, VERIF, Failure, Judgement, Property, drive
from . import c18_runner as support

ERRS = ["ValueError:boom{}", "KeyError:k{}", "RuntimeError:rt{}", "AntismashInputError:bad{}",
        "SecmetInvalidInputError:sec{}"]
KF_UNRECONSTRUCTIBLE = "KF-C18-unreconstructible-exception"
STALL_TIMEOUT = 0.01       # seconds; deadline used when the schedule says "the deadline passes"
FAR_TIMEOUT = 15.0         # a deadline that is given but never reached


# --------------------------------------------------------------------------- schedules

def chunk_count(n: int, workers: int) -> int:
    size = support.chunk_size(n, workers)
    return 0 if size == 0 else -(-n // size)


def feasible_order(rng: random.Random, chunks: int, workers: int, style: str) -> List[int]:
    """a completion order a pool of `workers` can produce: at most `workers` chunks in flight,
       chunks are started in index order"""
    inflight: List[int] = []
    nxt = 0
    order: List[int] = []
    while len(order) < chunks:
        while len(inflight) < workers and nxt < chunks:
            inflight.append(nxt)
            nxt += 1
        if style == "fifo":
            pick = 0
        elif style == "lifo":
            pick = len(inflight) - 1
        else:
            pick = rng.randrange(len(inflight))
        order.append(inflight.pop(pick))
    return order


def inorder_events(n: int, workers: int) -> List[List[Any]]:
    return [["done", i] for i in range(chunk_count(n, workers))]


# --------------------------------------------------------------------------- gated pool

class _FakeWorker:
    """stands in for a multiprocessing.Process child of the caller (a pool worker or a bystander)"""
    def __init__(self, pid: int) -> None:
        self.alive = True
        self.pid = 40000 + pid
        self.name = f"fake-{pid}"

    def is_alive(self) -> bool:
        return self.alive


class _Control:
    """per-call state shared by the gated pool, the tasks and the controller thread"""
    blocked_seen = 0

    def __init__(self, outcomes: List[List[Any]], events: List[List[Any]], has_timeout: bool,
                 deadline: float = 0.0, bystanders: Optional[List[int]] = None) -> None:
        self.outcomes = outcomes
        self.events = events
        self.has_timeout = has_timeout
        self.size = 0
        self.chunks = 0
        self.gates: List[threading.Event] = []
        self.arrived: List[threading.Event] = []
        self.gate_task: List[int] = []
        self.released = threading.Event()
        self.blocked = False
        self.pools: List[Any] = []
        self.instances: List[Any] = []
        self.fakes: List[_FakeWorker] = []
        self.bystander_ids = list(bystanders or [])
        self.bystanders = {pid: _FakeWorker(pid) for pid in self.bystander_ids}
        self.children_calls = 0
        self.thread: Optional[threading.Thread] = None
        self.watchdog = (3.0 if _Control.blocked_seen < 3 else 0.05) + deadline
        self.patience = 5.0 if _Control.blocked_seen < 3 else 0.3     # waiting for a batch to reach its gate

    # called by the pool when the batch is submitted
    def prepare(self, n: int, workers: int) -> None:
        self.size = support.chunk_size(n, workers)
        self.chunks = 0 if self.size == 0 else -(-n // self.size)
        self.gates = [threading.Event() for _ in range(self.chunks)]
        self.arrived = [threading.Event() for _ in range(self.chunks)]
        self.gate_task = []
        for chunk in range(self.chunks):
            members = range(chunk * self.size, min((chunk + 1) * self.size, n))
            self.gate_task.append(next((i for i in members if self.outcomes[i][0] not in ("ok", "rc")),
                                       members[-1]))

    def start(self, result: Any) -> None:
        self.thread = threading.Thread(target=self.control, args=(result,), daemon=True)
        self.thread.start()

    def pass_gate(self, i: int) -> None:
        if not self.size:
            return
        chunk = i // self.size
        if self.gate_task[chunk] == i:
            self.arrived[chunk].set()
            self.gates[chunk].wait()

    def release_all(self) -> None:
        self.released.set()
        for gate in self.gates:
            gate.set()

    def active_children(self) -> List[Any]:
        # like the real function: only children that are still alive, earlier children first
        self.children_calls += 1
        earlier = [b for b in self.bystanders.values() if b.alive]
        if self.children_calls == 1 or not self.pools:
            return earlier
        if not self.fakes:
            self.fakes = [_FakeWorker(i) for i in range(self.pools[-1] or 1)]
        return earlier + list(self.fakes)

    def control(self, result: Any) -> None:
        done = set()
        for event in self.events:
            if self.released.is_set():
                return
            if event[0] == "done":
                chunk = event[1]
                if chunk >= self.chunks or chunk in done:
                    continue
                waited = time.monotonic()
                while not self.arrived[chunk].wait(0.01):
                    if self.released.is_set() or time.monotonic() - waited > self.patience:
                        break
                if not self.arrived[chunk].is_set():
                    break
                left = getattr(result, "_number_left", None)
                done.add(chunk)
                self.gates[chunk].set()
                limit = time.monotonic() + 5.0
                while (left is not None and getattr(result, "_number_left", None) == left
                       and not self.released.is_set() and time.monotonic() < limit):
                    time.sleep(0.00005)
                if left is None:
                    time.sleep(0.002)
                elif left == 1:
                    # last chunk: `_set` decrements before it publishes; wait for the publication
                    while not result.ready() and not self.released.is_set() and time.monotonic() < limit:
                        time.sleep(0.00005)
            elif event[0] == "timeout":
                if self.has_timeout:
                    break
            elif event[0] == "exit" and event[1] in self.bystanders:
                # an unrelated child of the caller ends; give the poll loop time to look at it
                self.bystanders[event[1]].alive = False
                time.sleep(0.008)
            elif event[0] in ("died", "exit"):
                deadline = time.monotonic() + 1.0
                while not self.fakes and time.monotonic() < deadline and self.children_calls >= 2:
                    time.sleep(0.0005)
                if self.fakes:
                    self.fakes[event[1] % len(self.fakes)].alive = False
                break
        if not self.released.wait(self.watchdog):
            if result.ready() and self.released.wait(60.0):
                return                # the caller was merely slow to pick the finished result up
            self.blocked = True
            _Control.blocked_seen += 1
            self.release_all()


def _pool_class(ctl: _Control) -> Any:
    from multiprocessing.pool import ThreadPool

    class GatedPool(ThreadPool):
        def __init__(self, processes: Any = None, *args: Any, **kwargs: Any) -> None:
            ctl.pools.append(processes)
            ctl.instances.append(self)
            super().__init__(processes, *args, **kwargs)

        def starmap_async(self, func: Any, iterable: Any, *args: Any, **kwargs: Any) -> Any:
            iterable = list(iterable)
            ctl.prepare(len(iterable), len(self._pool))
            result = super().starmap_async(func, iterable, *args, **kwargs)
            ctl.start(result)
            return result

        def map_async(self, func: Any, iterable: Any, *args: Any, **kwargs: Any) -> Any:
            iterable = list(iterable)
            ctl.prepare(len(iterable), len(self._pool))
            result = super().map_async(func, iterable, *args, **kwargs)
            ctl.start(result)
            return result

        def terminate(self) -> None:
            ctl.release_all()
            super().terminate()

    return GatedPool


CASE_LIMIT = 10.0          # seconds one scheduled case may take (its calls complete instantly)


def run_scheduled(case: Dict[str, Any]) -> Dict[str, Any]:
    """the real parallel_function / parallel_execute under a chosen schedule"""
    begun = time.monotonic()
    obs = _run_scheduled(case)
    took = time.monotonic() - begun
    if took > CASE_LIMIT + float(case.get("deadline", 0)):
        obs["slow_s"] = round(took, 1)
    return obs


def _run_scheduled(case: Dict[str, Any]) -> Dict[str, Any]:
    from unittest import mock
    from antismash.common.subprocessing import base
    from antismash.config import destroy_config, update_config

    outcomes = case["outcomes"]
    events = case["events"]
    ctl = _Control(outcomes, events, bool(case["timeout"]), float(case.get("deadline", 0)),
                   case.get("before"))
    n = len(outcomes)
    timeout: Optional[float] = None
    if case["timeout"]:
        done_before = 0
        stalls = False
        resolved = case["cpus"] or case["config_cpus"]
        total = chunk_count(n, resolved) if resolved >= 1 else 0
        for event in events:
            if event[0] == "done":
                done_before += 1
            elif event[0] == "timeout" and done_before < total:
                stalls = True
                break
            elif event[0] == "died" or (event[0] == "exit" and event[1] not in (case.get("before") or [])):
                break
        # parallel_execute insists on whole seconds (`assert isinstance(timeout, int)`)
        timeout = case.get("deadline", STALL_TIMEOUT) if stalls else int(FAR_TIMEOUT)

    def task(i: int) -> Any:
        ctl.pass_gate(i)
        out = outcomes[i]
        if out[0] == "ok":
            return out[1]
        raise support.make_error(out[1])

    def fake_execute(command: List[str], *_args: Any, **_kwargs: Any) -> Any:
        i = int(command[1])
        ctl.pass_gate(i)
        out = outcomes[i]
        if out[0] == "rc":
            noisy = out[2] and not ctl.released.is_set()     # late workers of a terminated pool stay quiet
            return base.RunResult(command, b"", b"noise\n" if noisy else b"", out[1], True, True)
        if out[0] == "kbd":
            raise KeyboardInterrupt()
        raise support.make_error(out[1])

    patches = [mock.patch.object(base.multiprocessing, "Pool", _pool_class(ctl)),
               mock.patch.object(base.multiprocessing, "active_children", side_effect=ctl.active_children)]
    if hasattr(base, "_WORKER_POLL_INTERVAL"):
        patches.append(mock.patch.object(base, "_WORKER_POLL_INTERVAL", 0.002))
    if case["kind"] == "pe":
        patches += [mock.patch.object(base, "execute", fake_execute), mock.patch.object(base.os, "setpgid")]
    destroy_config()
    if case["cpus"] == 0:
        update_config({"cpus": case["config_cpus"]})
    sink = io.StringIO()
    try:
        with contextlib.ExitStack() as stack:
            for patch in patches:
                stack.enter_context(patch)
            stack.enter_context(contextlib.redirect_stderr(sink))
            try:
                if case["kind"] == "pf":
                    args: Any = [[i] for i in range(n)]
                    if case.get("gen"):
                        args = (a for a in args)
                    ret = base.parallel_function(task, args, cpus=case["cpus"] or None, timeout=timeout)
                else:
                    commands = [["cmd", str(i)] for i in range(n)]
                    ret = base.parallel_execute(commands, cpus=case["cpus"] or None, timeout=timeout,
                                                verbose=bool(case.get("verbose")))
                obs: Dict[str, Any] = {"ret": ret}
            except Exception as exc:  # pylint: disable=broad-except
                obs = support.classify_error(exc)
            ctl.release_all()
            for instance in ctl.instances:       # parallel_execute terminates but does not join its pool
                for worker in list(getattr(instance, "_pool", None) or []):
                    worker.join(1.0)
    finally:
        ctl.release_all()
        destroy_config()
        if ctl.thread is not None:
            ctl.thread.join(5.0)
    if ctl.blocked:
        obs = {"blocked": True}
    obs["pools"] = ctl.pools
    return obs


# --------------------------------------------------------------------------- the property

class C18(Property):
    ID = "C18"
    USES_TABLES = True
    SHAPE = [("antismash/common/subprocessing/base.py", q) for q in (
        "parallel_function", "_await_pool_results", "_WORKER_POLL_INTERVAL", "parallel_execute",
        "child_process", "verbose_child_process")] + [
        ("antismash/common/record_processing.py", "pre_process_sequences"),
        ("antismash/common/record_processing.py", "sanitise_sequence"),
        ("antismash/common/record_processing.py", "ensure_cds_info"),
        ("antismash/common/record_processing.py", "filter_records_by_name"),
        ("antismash/common/record_processing.py", "filter_records_by_count"),
        ("antismash/common/record_processing.py", "fix_record_name_id"),
        ("antismash/common/record_processing.py", "generate_unique_id"),
        ("antismash/common/secmet/record.py", "Record.__slots__"),
        ("antismash/common/secmet/record.py", "Record.__getattr__"),
        ("antismash/common/secmet/record.py", "Record.__setattr__"),
        ("antismash/common/secmet/record.py", "Record.__getstate__"),
        ("antismash/common/secmet/record.py", "Record.__setstate__"),
        ("antismash/common/secmet/record.py", "Record.__reduce__"),
        ("antismash/common/secmet/record.py", "Record.__reduce_ex__"),
        ("antismash/common/secmet/record.py", "Record.from_biopython"),
        ("antismash/common/secmet/features/cdscollection.py", "_SectionedCDSTuple.__new__"),
        ("antismash/common/secmet/features/cdscollection.py", "_SectionedCDSTuple.__reduce__"),
    ]
    RULE = ("scheduled cases: real parallel_function/parallel_execute on CPython's real MapResult/chunking with a "
            "gated ThreadPool; cpus 0(config)/1/2..16, batch sizes {0,1,k-1,k,k+1,3k+1,4k,4k+1,8k+3,...}, 0-3 "
            "raising calls, feasible completion orders (random/fifo/lifo with at most k chunks in flight), a "
            "deadline passing or a worker dying after any number of completions; non-trivial = pool path with "
            ">=2 chunks and an out-of-order completion, a failure or an interruption; distinct by canonical "
            "input.  real-process cases (extra_checks, child interpreters): unpatched pool with cpus from 1..16 "
            "(quick: seeded subset, thorough: all), sleeping tasks, raising task, killed worker, deadline, "
            "Records through sanitise_sequence/ensure_cds_info/identity/annotate and pre_process_sequences")
    TRUSTED = ["CPython 3.12 multiprocessing.Pool / ThreadPool: the Lean pool machine transcribes _map_async, "
               "_get_tasks, MapResult._set/get; that processes, pipes and handler threads implement it is trusted "
               "(exercised by the real-process cases, not proved)",
               "pickle: faithfulness for Records/features is checked on generated records by object-graph "
               "isomorphism with in-process execution, not proved",
               "scheduled cases steer CPython's ThreadPool through the private MapResult._number_left counter",
               "the OS scheduler: real completion orders are observed (log), not enumerated",
               "identifier rewriting is C16's Lean model (Model/Ids.lean); worker functions are modelled on "
               "(sequence, skip, #CDS) for ASCII sequences; everything else in a Record is compared by object graph"]

    def __init__(self) -> None:
        self._procs: List[Tuple[subprocess.Popen, List[Dict[str, Any]]]] = []
        self.extra_evaluations = 0
        self._started = time.monotonic()
        self._violations = 0          # judged failures outside the known-finding classes so far
        self._skipped = 0

    def over_budget(self) -> bool:
        """once something has already failed, the run is not allowed to crawl: after the budget the
           remaining cases are skipped (and counted) instead of waiting out one limit after another"""
        budget = 420.0 if getattr(self, "_tier", "quick") == "thorough" else 240.0
        return self._violations > 0 and time.monotonic() - self._started > budget

    # ------------------------------------------------------------------ scheduled-case generators
    def rand_outcomes(self, rng: random.Random, n: int, kind: str, failures: int) -> List[List[Any]]:
        out: List[List[Any]] = []
        bad = set(rng.sample(range(n), min(failures, n))) if n else set()
        for i in range(n):
            if i in bad:
                if kind == "pe" and rng.random() < 0.3:
                    out.append(["kbd"])
                else:
                    out.append(["err", rng.choice(ERRS).format(i)])
            elif kind == "pe":
                out.append(["rc", rng.choice([0, 0, 0, 1, 2, 127, -9]), rng.random() < 0.2])
            else:
                out.append(["ok", rng.randrange(-50, 1000)])
        return out

    def scheduled_case(self, rng: random.Random) -> Dict[str, Any]:
        kind = "pf" if rng.random() < 0.8 else "pe"
        workers = rng.choice([2, 2, 3, 3, 4, 5, 6, 7, 8, 9, 10, 11, 12, 13, 14, 15, 16, 16])
        if kind == "pe" and rng.random() < 0.2:
            workers = 1
        k = workers
        n = rng.choice([0, 1, k - 1, k, k + 1, 2 * k, 3 * k + 1, 4 * k - 1, 4 * k, 4 * k + 1, 5 * k + 2,
                        8 * k, 8 * k + 3, rng.randrange(0, 12 * k)])
        if k >= 10 and n > 6 * k:
            n = rng.choice([4 * k + 1, 5 * k + 2, 8 * k + 3]) if rng.random() < 0.3 else 3 * k + 1
        failures = rng.choice([0, 0, 0, 1, 1, 2, 3])
        outcomes = self.rand_outcomes(rng, n, kind, failures)
        chunks = chunk_count(n, k)
        order = feasible_order(rng, chunks, k, rng.choice(["random", "random", "random", "lifo", "fifo"]))
        events: List[List[Any]] = [["done", c] for c in order]
        has_timeout = rng.random() < 0.45
        r = rng.random()
        deadline: Any = None
        if has_timeout and r < 0.3:
            if kind == "pe":      # whole seconds only: the deadline passes at once, or (rarely) after one second
                deadline = 1 if rng.random() < 0.02 else 0
                events.insert(rng.randrange(0, len(events) + 1) if deadline else 0, ["timeout"])
            else:
                events.insert(rng.randrange(0, len(events) + 1), ["timeout"])
        elif r > 0.85:
            events.insert(rng.randrange(0, len(events) + 1), ["died", rng.randrange(0, k)])
        before: List[int] = []
        if rng.random() < 0.2:
            # the caller owns other child processes; some of them end while the batch is running
            before = [100 + i for i in range(rng.choice([1, 1, 2]))]
            for pid in before:
                if rng.random() < 0.8:
                    events.insert(rng.randrange(0, len(events) + 1), ["exit", pid])
            if rng.random() < 0.15:
                events.insert(rng.randrange(0, len(events) + 1), ["exit", rng.randrange(0, k)])
        use_config = rng.random() < 0.15
        case = {"kind": kind, "cpus": 0 if use_config else k, "config_cpus": k if use_config else rng.choice([1, 2, 4]),
                "timeout": has_timeout, "outcomes": outcomes, "events": events}
        if kind == "pf":
            case["gen"] = rng.random() < 0.5
        else:
            case["verbose"] = rng.random() < 0.3
        if deadline is not None:
            case["deadline"] = deadline
        if before:
            case["before"] = before
            case["after"] = before + list(range(k))
        return case

    def single_cpu_case(self, rng: random.Random) -> Dict[str, Any]:
        n = rng.choice([0, 1, 2, 3, 5, 8, 17, rng.randrange(0, 40)])
        outcomes = self.rand_outcomes(rng, n, "pf", rng.choice([0, 0, 1, 2, 3]))
        use_config = rng.random() < 0.4
        events = [["done", c] for c in rng.sample(range(n), n)][:rng.randrange(0, n + 1)]
        if rng.random() < 0.3:
            events.insert(rng.randrange(0, len(events) + 1), rng.choice([["timeout"], ["died", 0]]))
        return {"kind": "pf", "cpus": 0 if use_config else 1, "config_cpus": 1 if use_config else rng.choice([1, 2, 8]),
                "timeout": rng.random() < 0.5, "outcomes": outcomes, "events": events, "gen": rng.random() < 0.5}

    def small_scope(self, full: bool) -> Iterator[Dict[str, Any]]:
        """every feasible completion order of every batch of up to 5 (6) calls on 2 and 3 workers
           (chunks of one call), every position of a single failing call, deadline/death at every position"""
        import itertools
        total = 0
        for k in (2, 3):
            for n in range(0, 7 if full else 5):
                chunks = chunk_count(n, k)
                for perm in itertools.permutations(range(chunks)):
                    # feasibility: chunk j cannot complete before j-k+1 others have
                    if any(pos < c - k + 1 for pos, c in enumerate(perm)):
                        continue
                    for bad in [None] + list(range(n)):
                        outcomes: List[List[Any]] = [["ok", 10 + i] for i in range(n)]
                        if bad is not None:
                            outcomes[bad] = ["err", f"ValueError:boom{bad}"]
                        base_events = [["done", c] for c in perm]
                        variants: List[Tuple[bool, List[List[Any]]]] = [(False, base_events)]
                        if bad is None or full:
                            positions = range(len(base_events) + 1) if bad is None else (0, len(base_events) // 2)
                            for pos in positions:
                                variants.append((True, base_events[:pos] + [["timeout"]] + base_events[pos:]))
                                if pos % 2 == 0:
                                    variants.append((False, base_events[:pos] + [["died", pos % k]] + base_events[pos:]))
                        for has_timeout, events in variants:
                            total += 1
                            yield {"kind": "pf", "cpus": k, "config_cpus": 1, "timeout": has_timeout,
                                   "outcomes": outcomes, "events": events, "gen": False}
        self.exhaustive_done = full
        self.small_scope_cases = total

    def cases(self, rng: random.Random, tier: str, deep: bool) -> Iterator[Dict[str, Any]]:
        self._tier = tier
        self._start_real(rng, tier, deep)
        n_sched = 9000 if deep else 1500
        n_single = 20000 if deep else 3000
        for i in range(max(n_sched, n_single)):
            if i < n_sched:
                yield self.scheduled_case(rng)
            if i < n_single:
                yield self.single_cpu_case(rng)
        if deep:
            yield from self.small_scope(full=(tier == "thorough"))

    # ------------------------------------------------------------------ real-process case generators
    def rand_record(self, rng: random.Random, i: int, circular: bool, length: int, rich: bool) -> Dict[str, Any]:
        seq = "".join(rng.choice("ACGTACGTNacgtn-RYK") for _ in range(length))
        cds: List[Any] = []
        units: List[Any] = []
        if rich:
            for s in range(400 if circular else 0, length - 400, 400):
                if rng.random() < 0.75:
                    cds.append([[[s + 50, s + 140, 1]], f"r{i}_c{s}a"])
                    cds.append([[[s + 160, s + 250, -1]], f"r{i}_c{s}b"])
                    protos = [[s + 50, s + 140, 40, rng.choice(["t1pks", "nrps", "terpene"])]]
                    if rng.random() < 0.5:
                        protos.append([s + 160, s + 250, 30, "ripp"])
                    unit: Dict[str, Any] = {"protoclusters": protos}
                    if rng.random() < 0.5:
                        unit["subregion"] = [s + 20, s + 300, f"sub{s}"]
                    units.append(unit)
                elif rng.random() < 0.5:
                    cds.append([[[s + 30, s + 90, 1], [s + 120, s + 180, 1]], f"r{i}_m{s}"])
            if circular:
                cds.append([[[length - 50, length, 1], [0, 7, 1]], f"r{i}_x"])
                units.append({"protoclusters": [[length - 50, 7, 20, "ripp"]], "crosses": True})
        spec: Dict[str, Any] = {"id": f"rec{i}", "seq": seq, "length": length, "circular": circular, "cds": cds,
                                "units": units, "index": i}
        if rich:
            spec.update({"misc": [[5, 8, 1, "misc_feature"]], "original_id": f"orig{i}",
                         "annotations": {"molecule_type": "DNA", "organism": f"org {i}"}, "description": f"desc {i}"})
        return spec

    @staticmethod
    def genbank_record(rng: random.Random, i: int, letters: bool = False) -> Dict[str, Any]:
        """a record as GenBank text: DBLINK lines (-> SeqRecord.dbxrefs), CDS/gene/misc features (kept in
           the wrapped SeqRecord as well), references-free header; optionally per-letter annotations"""
        from io import StringIO
        from Bio import SeqIO
        from Bio.Seq import Seq
        from Bio.SeqFeature import FeatureLocation, SeqFeature
        from Bio.SeqRecord import SeqRecord
        length = rng.choice([300, 600, 1200])
        seq = "".join(rng.choice("ACGT" * 6 + "NRY") for _ in range(length))
        dbxrefs = [f"BioProject:PRJNA{rng.randrange(10**5)}"]
        if rng.random() < 0.7:
            dbxrefs.append(f"BioSample:SAMN{rng.randrange(10**7)}")
        if rng.random() < 0.3:
            dbxrefs.append(f"Assembly:GCF_{rng.randrange(10**8)}.1")
        rid = f"GBK{i:03d}{rng.randrange(1000)}"
        bio = SeqRecord(Seq(seq), id=rid, name=rid, description=f"genbank record {i}",
                        annotations={"molecule_type": "DNA", "topology": rng.choice(["linear", "circular"]),
                                     "organism": f"Streptomyces sp. {i}", "source": f"Streptomyces sp. {i}",
                                     "data_file_division": "BCT", "taxonomy": ["Bacteria", "Actinomycetota"]},
                        dbxrefs=dbxrefs)
        for n, start in enumerate(range(30, length - 120, 240)):
            strand = 1 if n % 2 == 0 else -1
            loc = FeatureLocation(start, start + 90, strand)
            bio.features.append(SeqFeature(loc, type="gene", qualifiers={"locus_tag": [f"{rid}_{n}"]}))
            bio.features.append(SeqFeature(loc, type="CDS", qualifiers={
                "locus_tag": [f"{rid}_{n}"], "translation": ["M" + "A" * 28], "product": [f"protein {n}"],
                "db_xref": [f"GeneID:{rng.randrange(10**6)}"]}))
        bio.features.append(SeqFeature(FeatureLocation(5, 25, 1), type="misc_feature", qualifiers={"note": ["n"]}))
        out = StringIO()
        SeqIO.write(bio, out, "genbank")
        spec: Dict[str, Any] = {"id": rid, "genbank": out.getvalue(), "index": i, "dbxrefs": dbxrefs}
        if letters:
            spec["letter_annotations"] = {"phred_quality": [rng.randrange(10, 60) for _ in range(length)]}
        return spec

    @staticmethod
    def colliding_ids(rng: random.Random) -> List[str]:
        """record ids that are pairwise different as given but meet once fix_record_name_id rewrites them"""
        stem = rng.choice(["Streptomyces", "Kitasatospora", "Micromonospora_sp"])
        number = rng.choice([1, 7, 12, 345])
        families = [
            # over-long ids shortening to the same c000NN_prefix.. name
            [f"{stem}_A1.contig{number}", f"{stem}_A2.contig{number}", f"{stem}_B7.contig{number}"],
            [f"{stem}_plasmid_x_scaffold{number}", f"{stem}_plasmid_y_scaffold{number}"],
            # equal once the illegal characters are stripped
            [f"scaffold({number})", f"scaffold[{number}]", f"scaffold{number}"],
            [f"ctg:{number}", f"ctg;{number}", f"c,t,g{number}"],
            # RefSeq accessions differing in the version only
            [f"NZ_AMZN0100{number:04d}0.1", f"NZ_AMZN0100{number:04d}0.2"],
            # over-long and dirty at once
            [f"{stem}(strain 1) contig{number}", f"{stem}(strain 2) contig{number}"],
            # a shortened name that is already somebody's id
            [f"c{number:05d}_{stem[:7]}..", f"{stem[:7]}_long_name.contig{number}"],
        ]
        ids = list(rng.choice(families))
        if rng.random() < 0.5:
            ids += rng.choice(families)[:2]
        ids += [f"plain{rng.randrange(100)}"] * rng.choice([0, 1, 1, 2])
        rng.shuffle(ids)
        # exact duplicates are fine (uniquePass), but keep at least two records
        return ids if len(ids) >= 2 else ids + ["other"]

    def real_cases(self, rng: random.Random, tier: str, deep: bool) -> List[Dict[str, Any]]:
        thorough = tier == "thorough"
        all_cpus = list(range(1, 17))
        if thorough:
            cpus_list = all_cpus
        else:
            cpus_list = sorted({1, 2, 3, 16} | set(rng.sample(range(4, 16), 3)))
        cases: List[Dict[str, Any]] = []

        def tasks_for(n: int, k: int, style: str) -> List[List[Any]]:
            out = []
            for i in range(n):
                if style == "reverse":      # early calls slow, late calls fast
                    delay = int(40 * (n - i) / max(n, 1)) + rng.randrange(0, 4)
                else:
                    delay = rng.choice([0, 1, 3, 8, 15, 30])
                out.append([delay, "ok", rng.randrange(-50, 1000)])
            return out

        for k in cpus_list:
            sizes = [0, 1, k - 1, k, k + 1, 3 * k + 1] + ([4 * k + 1, 8 * k + 3] if thorough else [])
            for n in sorted(set(s for s in sizes if s >= 0)):
                for style in (("reverse", "random") if thorough else ("reverse",)):
                    cases.append({"kind": "rpf", "cpus": k, "tasks": tasks_for(n, k, style),
                                  "generator": rng.random() < 0.5})
                if n >= 1 and (thorough or rng.random() < 0.35):
                    tasks = tasks_for(n, k, "random")
                    first = rng.randrange(n)
                    tasks[first] = [rng.choice([0, 10]), ERRS[rng.randrange(len(ERRS))].format(first), 0]
                    if n >= 3 and rng.random() < 0.5:
                        second = rng.choice([i for i in range(n) if i != first])
                        tasks[second] = [tasks[first][0] + 90, ERRS[rng.randrange(len(ERRS))].format(second), 0]
                    cases.append({"kind": "rpf", "cpus": k, "tasks": tasks})
            for variant in ("timeout", "exit", "sysexit"):
                if not thorough and rng.random() < 0.6 and not (k == 2):
                    continue
                n = rng.choice([1, k, k + 1, 3 * k + 1])
                tasks = tasks_for(n, k, "random")
                victim = rng.randrange(n)
                if variant == "timeout":
                    tasks[victim] = [5000 if k >= 2 else 400, "ok", 1]   # one cpu: the deadline is ignored
                    cases.append({"kind": "rpf", "cpus": k, "tasks": tasks, "timeout": 0.25})
                elif k >= 2:
                    tasks[victim] = [rng.choice([0, 20]), variant, 1]
                    case: Dict[str, Any] = {"kind": "rpf", "cpus": k, "tasks": tasks, "limit": 12.0}
                    if rng.random() < 0.5:
                        case["timeout"] = 30
                    cases.append(case)
        for k in ([2, 3, 5, 8, 16] if thorough else [2, rng.choice([4, 9, 16])]):
            # the caller owns another child process that ends while the batch is running
            n = rng.choice([k, k + 1, 3 * k + 1])
            tasks = [[rng.choice([250, 320, 400]), "ok", rng.randrange(1000)] for _ in range(n)]
            cases.append({"kind": "rpf", "cpus": k, "tasks": tasks, "bystander_ms": rng.choice([60, 120]),
                          **({"timeout": 30} if rng.random() < 0.5 else {})})
        if thorough:
            for k in (2, 7):
                tasks = tasks_for(k + 1, k, "random")
                tasks[1] = [5, "Unreconstructible:7/cannot be rebuilt", 0]
                cases.append({"kind": "rpf", "cpus": k, "tasks": tasks, "limit": 3.0})
                cases.append({"kind": "rpf", "cpus": 1, "tasks": tasks})      # in-process: surfaces unchanged
        # records across the boundary
        rec_cpus = [2, 3, 4, 7, 8, 16] if thorough else [2, rng.choice([3, 5, 8])]
        for k in rec_cpus:
            for rep in range(2 if thorough else 1):
                count = rng.choice([k - 1, k + 1, 2 * k + 1]) if k <= 4 else rng.choice([3, k + 1])
                rich = [self.rand_record(rng, i, circular=(i % 2 == 1), length=rng.choice([1200, 2000, 2800]), rich=True)
                        for i in range(max(count, 2))]
                for func in ("sanitise", "identity", "annotate", "genefind"):
                    cases.append({"kind": "rec", "func": func, "cpus": k, "records": rich})
                plain = [self.rand_record(rng, i, False, rng.choice([300, 900, 1500]), rich=False)
                         for i in range(max(count, 2))]
                if rng.random() < 0.5:
                    plain[rng.randrange(len(plain))]["seq"] = "NNNN----" * 10
                cases.append({"kind": "rec", "func": "genefind", "cpus": k, "records": plain})
                failing = [dict(p) for p in plain]
                failing[rng.randrange(len(failing))]["id"] = "bad_record"
                cases.append({"kind": "rec", "func": "genefind", "cpus": k, "records": failing})
                dup = [dict(p) for p in plain]
                dup[-1]["id"] = dup[0]["id"]
                cases.append({"kind": "prep", "cpus": k, "records": dup + rich})
                cases.append({"kind": "prep", "cpus": k, "records": failing})
        # records parsed from GenBank text: DBLINK cross references, the wrapped SeqRecord's own feature
        # list, per-letter annotations — everything a Record wraps has to survive the boundary
        for k in ([2, 3, 6, 16] if thorough else [2, rng.choice([3, 5, 8])]):
            gbk = [self.genbank_record(rng, i) for i in range(rng.choice([2, 3, k + 1]))]
            for func in ("identity", "annotate", "sanitise", "genefind"):
                cases.append({"kind": "rec", "func": func, "cpus": k, "records": gbk})
            lettered = [self.genbank_record(rng, i, letters=(i % 2 == 0)) for i in range(3)]
            cases.append({"kind": "rec", "func": "identity", "cpus": k, "records": lettered})
            cases.append({"kind": "rec", "func": "sanitise", "cpus": k, "records": lettered})   # raises alike
            cases.append({"kind": "prep", "cpus": k, "records": gbk, "minlength": 1})
        # identifiers that only collide AFTER rewriting: the shared id set must be threaded through all records
        for k in ([2, 3, 4, 8, 16] if thorough else [2, rng.choice([3, 4, 6])]):
            for rep in range(3 if thorough else 2):
                ids = self.colliding_ids(rng)
                records = []
                for i, rid in enumerate(ids):
                    spec = self.rand_record(rng, i, False, rng.choice([120, 300]), rich=False)
                    spec["id"] = rid
                    spec["name"] = rid if rng.random() < 0.7 else f"name{i}"
                    records.append(spec)
                cases.append({"kind": "prep", "cpus": k, "records": records, "minlength": 1,
                              "allow_long_headers": rng.random() < 0.3})
        # the parent-side filters between the two trips through the pool
        for k in ([2, 4, 16] if thorough else [2]):
            for rep in range(4 if thorough else 2):
                count = rng.choice([3, 4, 6])
                recs = [self.rand_record(rng, i, False, rng.choice([120, 300, 300, 700, 1500]), rich=False)
                        for i in range(count)]
                if rng.random() < 0.4:
                    recs[rng.randrange(count)]["seq"] = "NNNN" * 60
                target = rng.choice(["", "", recs[rng.randrange(count)]["id"]])
                cases.append({"kind": "prep", "filters": True, "cpus": k, "records": recs,
                              "minlength": rng.choice([1, 200, 400]), "limit": rng.choice([-1, 1, 2, 3, 10]),
                              "limit_to_record": target})
        # parallel_execute with real children
        for k in ([1, 2, 5, 16] if thorough else [1, 3]):
            codes = [rng.choice([0, 0, 1, 3, 7]) for _ in range(rng.choice([k, k + 1, 2 * k + 1]))]
            commands = [["sh", "-c", f"sleep 0.0{rng.randrange(0, 9)}; exit {c}"] for c in codes]
            cases.append({"kind": "rpe", "cpus": k, "commands": commands, "codes": codes})
            cases.append({"kind": "rpe", "cpus": k, "commands": commands[:1] + [["/nonexistent/asv-c18"]] + commands[1:],
                          "codes": codes[:1] + [None] + codes[1:]})
            if thorough or k == 3:
                cases.append({"kind": "rpe", "cpus": k, "commands": [["sleep", "5"]] + commands, "timeout": 1,
                              "codes": [0] + codes})
        return cases

    def corpus(self) -> List[Dict[str, Any]]:
        """scheduled corpus entries run in-process; real-process ones join the child-process batch"""
        entries = super().corpus()
        self._real_corpus = [c for c in entries if c["kind"] not in ("pf", "pe")]
        return [c for c in entries if c["kind"] in ("pf", "pe")]

    def _start_real(self, rng: random.Random, tier: str, deep: bool) -> None:
        real_rng = random.Random(rng.random())
        cases = getattr(self, "_real_corpus", []) + self.real_cases(real_rng, tier, deep)
        for i, case in enumerate(cases):
            case["n"] = i
        width = 12 if tier == "thorough" else 8
        buckets: List[List[Dict[str, Any]]] = [[] for _ in range(width)]
        # longest-first round robin keeps the buckets balanced
        for i, case in enumerate(sorted(cases, key=lambda c: -len(json.dumps(c)))):
            buckets[i % width].append(case)
        self._procs = []
        for bucket in buckets:
            if bucket:
                self._procs.append((self._spawn(bucket), bucket))

    @staticmethod
    def _spawn(cases: List[Dict[str, Any]]) -> subprocess.Popen:
        import tempfile
        env = dict(os.environ, ASV_REPO=str(REPO), ASV_C18_BUDGET=os.environ.get("ASV_C18_BUDGET", "240"))
        feed = tempfile.TemporaryFile(mode="w+", prefix="asv_c18_cases_")
        feed.write("".join(json.dumps(c) + "\n" for c in cases))
        feed.flush()
        feed.seek(0)
        proc = subprocess.Popen([sys.executable, "-m", "harness.props.c18_runner"], cwd=str(VERIF), env=env,
                                stdin=feed, stdout=subprocess.PIPE, stderr=subprocess.DEVNULL, text=True)
        feed.close()
        return proc

    @staticmethod
    def _collect(proc: subprocess.Popen, cases: List[Dict[str, Any]], limit: float) -> List[Dict[str, Any]]:
        try:
            out, _ = proc.communicate(timeout=limit)
        except subprocess.TimeoutExpired:
            proc.kill()
            out, _ = proc.communicate()
        obs = [json.loads(line) for line in out.splitlines() if line.strip()]
        while len(obs) < len(cases):
            obs.append({"harness_error": "runner produced no observation (crashed or timed out)"})
        return obs

    # ------------------------------------------------------------------ implementation adapter
    def run_impl(self, case: Dict[str, Any]) -> Dict[str, Any]:
        if case["kind"] in ("pf", "pe"):
            if self.over_budget():
                self._skipped += 1
                return {"skipped": True}
            obs = run_scheduled(case)
            if obs.get("blocked") or obs.get("slow_s"):
                self._violations += 1      # seen before the batch is judged: lets the budget apply at once
            return obs
        proc = self._spawn([case])
        return self._collect(proc, [case], 120.0)[0]

    @staticmethod
    def in_unreconstructible_class(case: Dict[str, Any]) -> bool:
        """known-finding class: real worker processes (cpus >= 2) and some call raises an exception
           whose class cannot be rebuilt from its `args` (unpickling it kills CPython's result handler)"""
        return (case["kind"] == "rpf" and case["cpus"] >= 2
                and any(str(t[1]).startswith("Unreconstructible:") for t in case["tasks"]))

    @staticmethod
    def _outcome(obs: Dict[str, Any]) -> Dict[str, Any]:
        return {k: obs[k] for k in ("ret", "err", "e", "blocked") if k in obs}

    def driver_line(self, case: Dict[str, Any], obs: Dict[str, Any]) -> Optional[Dict[str, Any]]:
        kind = case["kind"]
        if obs.get("skipped"):
            return None
        impl = self._outcome(obs)
        if "ret" in impl and not all(v is None or (isinstance(v, int) and not isinstance(v, bool)) for v in impl["ret"]):
            impl = {"err": "task", "e": "non-integer results"}   # cannot be what the spec expects
        if kind in ("pf", "pe"):
            return {"kind": kind, "cpus": case["cpus"], "config_cpus": case["config_cpus"], "timeout": case["timeout"],
                    "outcomes": case["outcomes"], "events": case["events"], "impl": impl,
                    "before": case.get("before", []), "after": case.get("after", []),
                    "verbose": bool(case.get("verbose", False))}
        if kind == "rpf":
            if "harness_error" in obs:
                return None
            outcomes = [["ok", val] if mode in ("ok", "exit", "sysexit") else ["err", mode]
                        for _d, mode, val in case["tasks"]]
            return {"kind": "pf", "cpus": case["cpus"], "config_cpus": 1, "timeout": case.get("timeout") is not None,
                    "outcomes": outcomes, "events": obs.get("events", []), "impl": impl}
        if kind == "rec":
            if case["func"] not in ("sanitise", "genefind") or "given" not in obs:
                return None
            return {"kind": "workers", "func": case["func"], "records": obs["given"]}
        if kind == "prep" and case.get("filters"):
            if "lens" not in obs:
                return None
            return {"kind": "filters", "target": case.get("limit_to_record", ""), "minlength": case.get("minlength", 10),
                    "limit": case.get("limit", -1),
                    "frecs": [[rid, n, None if real else "contains no sequence"]
                              for rid, n, real in zip(obs["ids"], obs["lens"], obs["real"])]}
        if kind == "prep":
            if "recs" not in obs or any(spec.get("original_id") or spec.get("genbank") for spec in case["records"]):
                return None
            return {"kind": "prep_ids", "cpus": case["cpus"], "allow_long": bool(case.get("allow_long_headers", False)),
                    "recs": [[spec["id"], spec.get("name") if spec.get("name") is not None else "<unknown name>"]
                             for spec in case["records"]]}
        if kind == "rpe":
            if "harness_error" in obs:
                return None
            outcomes = [["rc", code, False] if code is not None else ["err", "FileNotFoundError:2"]
                        for code in case["codes"]]
            n = len(outcomes)
            events: List[List[Any]] = [["timeout"]] if obs.get("err") == "timeout" else inorder_events(n, case["cpus"])
            return {"kind": "pe", "cpus": case["cpus"], "config_cpus": 1, "timeout": case.get("timeout") is not None,
                    "outcomes": outcomes, "events": events, "impl": impl}
        return None

    def judge(self, case: Dict[str, Any], obs: Dict[str, Any], drv: Optional[Dict[str, Any]]) -> Judgement:
        if obs.get("skipped"):
            return Judgement(True, True, tags=(case["kind"], "skipped-after-budget"),
                             detail="skipped: a violation was already found and the time budget is used up")
        verdict = self._judge(case, obs, drv)
        if obs.get("slow_s") and verdict.spec_ok and verdict.corr_ok:
            verdict = Judgement(False, False, in_scope=verdict.in_scope, tags=verdict.tags + ("slow",),
                                detail=f"the helper did not return within {CASE_LIMIT:.0f} s (took {obs['slow_s']} s) "
                                       f"although every call completes at once")
        if (not verdict.spec_ok or not verdict.corr_ok) and not verdict.known:
            self._violations += 1
        return verdict

    def _judge(self, case: Dict[str, Any], obs: Dict[str, Any], drv: Optional[Dict[str, Any]]) -> Judgement:
        kind = case["kind"]
        if "harness_error" in obs:
            return Judgement(False, False, detail=f"harness could not run the case: {obs['harness_error']} "
                                                  f"{obs.get('trace', '')[-300:]}", tags=(kind, "harness-error"))
        if kind in ("rec", "prep"):
            problems = list(obs.get("problems", [])) + [f"pickle: {p}" for p in obs.get("pickle_problems", [])]
            tags = [kind, case.get("func", "prep"), f"cpus{case['cpus']}", "error" if "error" in obs else "records"]
            corr = not problems
            if kind == "rec" and drv is not None and "model" in drv:
                # Lean model of the worker function (sanitiseSequence / ensureCdsInfo) on sequence, skip, #CDS
                model = drv["model"]
                tags.append("worker-model")
                if "content" in model:
                    if obs.get("content") != model["content"]:
                        corr = False
                        diff = next((i for i, (a, b) in enumerate(zip(obs.get("content") or [], model["content"])) if a != b), 0)
                        got = (obs.get("content") or [None] * (diff + 1))[diff] if obs.get("content") else obs.get("error")
                        problems.append(f"worker function model, record {diff}: {str(model['content'][diff])[:120]} vs "
                                        f"implementation {str(got)[:120]}")
                elif not str(obs.get("error", {}).get("e", "")).startswith(model.get("err", "?")):
                    corr = False
                    problems.append(f"worker function model raises {model.get('err')}, implementation {obs.get('error') or 'returned'}")
                if not corr and len(problems) == 1:
                    return Judgement(False, True, nontrivial=True, tags=tuple(tags), detail=problems[0][:600])
            if kind == "prep" and case.get("filters") and drv is not None and "model" in drv and "skips" in obs:
                # Lean model of filter_records_by_name / minimum length / filter_records_by_count; a record
                # the filters leave alone may still be marked by ensure_cds_info afterwards
                tags.append("filters-model")
                want = drv["model"].get("skips")
                if want is None:
                    corr = False
                    problems.append(f"filters model raises {drv['model'].get('err')}, implementation returned")
                else:
                    final = [w if w else ("No genes found" if c == 0 else None) for w, c in zip(want, obs["cds"])]
                    if final != obs["skips"]:
                        corr = False
                        problems.append(f"filters model: skip flags {final} vs implementation {obs['skips']}")
                if not corr and len(problems) == 1:
                    return Judgement(False, True, nontrivial=True, tags=tuple(tags), detail=problems[0][:600])
            elif kind == "prep" and drv is not None and "recs" in obs and "model" in drv:
                # Lean: the id set threaded in the parent (C16 model) = the one-cpu result (theorem
                # state_threaded_in_parent_cpus_invariant); `shipped` = a copy per task batch
                model = drv["model"].get("recs")
                ids = [r[0] for r in obs["recs"]]
                if len(set(ids)) < len(ids):
                    problems.insert(0, f"records share an identifier: {ids}")
                mismatch = ""
                if model is not None and obs["recs"] != model:
                    corr = False
                    mismatch = f"model (id set threaded in the parent) {model} vs implementation {obs['recs']}"
                if drv.get("shipped") is not None and drv["shipped"] != model:
                    tags.append("ids-depend-on-threading")
                    if obs["recs"] == drv["shipped"]:
                        problems.append("identifiers are those of a per-batch copy of the id set")
                if mismatch and not problems:
                    return Judgement(False, True, nontrivial=True, tags=tuple(tags), detail=mismatch[:600])
            return Judgement(corr, not problems, nontrivial=True, tags=tuple(tags), detail="; ".join(problems)[:600])
        assert drv is not None
        if "err" in drv and "model" not in drv:
            return Judgement(False, True, detail=f"driver error {drv['err']}")
        impl = self._outcome(obs)
        model = drv["model"]
        spec_ok = bool(drv["spec"])
        corr = impl == model
        detail = ""
        tags: List[str] = [kind]
        resolved = case["cpus"] or case.get("config_cpus", 1)
        if kind in ("rpf", "rpe"):
            tags.append(f"cpus{case['cpus']}")
            failing = [t for t in case.get("tasks", []) if t[1] not in ("ok", "exit", "sysexit")]
            ambiguous = kind == "rpe" or (len(failing) >= 2 and obs.get("min_failure_gap_ms", 0) < 50)
            if ambiguous and spec_ok:
                corr = True       # which of several failures arrived first was not observed reliably
            if kind == "rpf":
                order = [e[1] for e in obs.get("events", []) if e[0] == "done"]
                if order != sorted(order):
                    tags.append("out-of-order")
                if obs.get("pids", 0) >= 2:
                    tags.append("multi-process")
                if case["cpus"] == 1 and not obs.get("own_pid_used", True) and case["tasks"]:
                    corr = False
                    detail = "cpus=1 ran in another process"
        else:
            if resolved >= 2 or kind == "pe":
                if obs.get("pools") != [resolved] and resolved >= 1:
                    corr = False
                    detail = f"pool created with {obs.get('pools')} processes, expected [{resolved}]"
                if resolved >= 1 and drv["chunksize"] != support.chunk_size(len(case["outcomes"]), resolved):
                    corr = False
                    detail = "chunk size of the harness differs from the model's"
            elif obs.get("pools"):
                corr = False
                detail = "a pool was created for a single cpu"
        if not spec_ok and obs.get("blocked") and obs.get("limit_s"):
            detail = (f"the helper did not return within {obs['limit_s']:.0f} s although all calls together "
                      f"take {obs.get('calls_s', 0):.1f} s")
        if not spec_ok:
            detail = detail or f"outcome {json.dumps(impl)[:200]} not acceptable; sequential reference {json.dumps(drv['seq'])[:200]}"
        elif not corr and not detail:
            detail = f"model {json.dumps(model)[:200]} vs implementation {json.dumps(impl)[:200]}"
        tags.append("returned" if "ret" in impl else impl.get("err", "blocked"))
        order = [e[1] for e in (case.get("events") or obs.get("events") or []) if e[0] == "done"]
        pool_path = resolved >= 2 or kind in ("pe", "rpe")
        nontrivial = pool_path and drv.get("chunks", 0) >= 2 and (order != sorted(order) or "ret" not in impl)
        tags.append("pool" if pool_path else "single-cpu")
        known = None
        in_scope = bool(drv.get("scope", True))
        if self.in_unreconstructible_class(case):
            in_scope = False          # outside `faithful_pickling_invisible_partial`'s hypothesis on exceptions
            tags.append("unreconstructible-exception")
            if not spec_ok or not corr:
                known = KF_UNRECONSTRUCTIBLE
        return Judgement(corr, spec_ok, in_scope=in_scope, known=known, nontrivial=nontrivial,
                         tags=tuple(tags), detail=detail)

    # ------------------------------------------------------------------ real-process checks
    def extra_checks(self, rng: random.Random, tier: str, deep: bool) -> List[Failure]:
        failures: List[Failure] = []
        pairs: List[Tuple[Dict[str, Any], Dict[str, Any]]] = []
        limit = 420.0 if tier == "thorough" else 150.0
        start = time.time()
        for proc, bucket in self._procs:
            remaining = max(limit - (time.time() - start), 5.0)
            for case, obs in zip(bucket, self._collect(proc, bucket, remaining)):
                pairs.append((case, obs))
        self._procs = []
        pairs.sort(key=lambda p: p[0]["n"])
        lines, idxs = [], []
        for i, (case, obs) in enumerate(pairs):
            line = self.driver_line(case, obs)
            if line is not None:
                lines.append(dict(line, p=self.ID, id=i))
                idxs.append(i)
        answers = dict(zip(idxs, drive(lines)))
        tags: Dict[str, int] = {}
        cpus_seen = set()
        nontrivial = 0
        for i, (case, obs) in enumerate(pairs):
            drv = answers.get(i)
            verdict = self.judge(case, obs, drv)
            for tag in verdict.tags:
                tags[tag] = tags.get(tag, 0) + 1
            cpus_seen.add(case["cpus"])
            nontrivial += verdict.nontrivial
            if not verdict.spec_ok or not verdict.corr_ok:
                failures.append(Failure("spec" if not verdict.spec_ok else "correspondence", case, obs, drv,
                                        verdict.detail, verdict.known))
        self.extra_evaluations = len(pairs)
        self.extra_coverage = {"real_process_cases": len(pairs), "real_process_nontrivial": nontrivial,
                               "real_process_tags": dict(sorted(tags.items())),
                               "real_process_cpus": sorted(cpus_seen),
                               "small_scope_cases": getattr(self, "small_scope_cases", 0),
                               "skipped_after_budget": self._skipped + tags.get("skipped-after-budget", 0)}
        return failures

    # ------------------------------------------------------------------ shrinking
    def shrink(self, case: Dict[str, Any]) -> Iterator[Dict[str, Any]]:
        kind = case["kind"]
        if kind in ("pf", "pe"):
            n = len(case["outcomes"])
            resolved = case["cpus"] or case["config_cpus"]
            extra = [e for e in case["events"] if e[0] != "done"]
            for smaller in (n // 2, n - 1):
                if 0 <= smaller < n:
                    for tail in ([], extra[:1]):
                        yield dict(case, outcomes=case["outcomes"][:smaller],
                                   events=tail + inorder_events(smaller, max(resolved, 1)))
            if resolved > 2:
                workers = 2
                yield dict(case, cpus=workers if case["cpus"] else 0, config_cpus=workers if not case["cpus"] else case["config_cpus"],
                           events=extra[:1] + inorder_events(n, workers))
            ordered = inorder_events(n, max(resolved, 1))
            if [e for e in case["events"] if e[0] == "done"] != ordered:
                yield dict(case, events=extra[:1] + ordered)
            for i, out in enumerate(case["outcomes"]):
                if out[0] not in ("ok", "rc"):
                    fixed = list(case["outcomes"])
                    fixed[i] = ["ok", 0] if kind == "pf" else ["rc", 0, False]
                    yield dict(case, outcomes=fixed)
        elif kind == "rpf":
            tasks = case["tasks"]
            if len(tasks) > 1:
                yield dict(case, tasks=tasks[:len(tasks) // 2])
                yield dict(case, tasks=tasks[:-1])
        elif kind in ("rec", "prep"):
            records = case["records"]
            for i in range(len(records)):
                if len(records) > 1:
                    yield dict(case, records=records[:i] + records[i + 1:])


PROP = C18
