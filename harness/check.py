"""entry point: ./check Cxx [--tier quick|thorough] [--replay path]"""
import importlib
import sys

from . import framework


def main() -> int:
    if len(sys.argv) < 2:
        print("usage: check Cxx [--tier quick|thorough] [--replay path]")
        return 2
    pid = sys.argv[1].upper()
    try:
        mod = importlib.import_module(f"harness.props.{pid.lower()}")
    except ModuleNotFoundError as exc:
        print(f"INFRA: no harness module for {pid}: {exc}")
        return 2
    try:
        return framework.main_check(mod.PROP(), sys.argv[2:])
    except framework.Infra as exc:
        print(f"INFRA: {exc}")
        return 2


if __name__ == "__main__":
    sys.exit(main())
