"""Table generators (see gen_tables.py).  One function per generated Lean file."""
from __future__ import annotations

from pathlib import Path

from .gen_tables import lean_str_list, literal, table  # noqa: F401


@table("C13Docking")
def c13_docking(repo: Path) -> str:
    """the local `dockingdomains` set of filter_nonterminal_docking_domains"""
    names = sorted(literal(repo / "antismash/detection/nrps_pks_domains/domain_identification.py",
                           "dockingdomains", within="filter_nonterminal_docking_domains"))
    return ("namespace ASV.Generated\n"
            f"def dockingDomains : List String := {lean_str_list(names)}\n"
            "end ASV.Generated\n")
