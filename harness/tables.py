"""Table generators (see gen_tables.py).  One function per generated Lean file."""
from __future__ import annotations

from pathlib import Path

from .gen_tables import lean_str_list, literal, table  # noqa: F401


def lean_char(c: str) -> str:
    """a Lean `Char` literal"""
    special = {"'": "\\'", "\\": "\\\\", "\n": "\\n", "\t": "\\t", "\r": "\\r"}
    if c in special:
        return "'" + special[c] + "'"
    if 32 <= ord(c) < 127:
        return f"'{c}'"
    return f"(Char.ofNat {ord(c)})"


def lean_char_list(chars: str) -> str:
    """sorted, duplicate-free `List Char` literal"""
    return "[" + ", ".join(lean_char(c) for c in sorted(set(chars))) + "]"


@table("Ids")
def ids_tables(repo: Path) -> str:
    """C16: the two illegal-character sets (record ids / gene ids)"""
    rec = literal(repo / "antismash/common/record_processing.py", "illegal_chars", within="fix_record_name_id")
    cds = literal(repo / "antismash/common/secmet/features/cds_feature.py", "illegal_chars",
                  within="_sanitise_id_value")
    return ("namespace ASV.Generated.Ids\n\n"
            "/-- `illegal_chars` of `record_processing.fix_record_name_id` -/\n"
            f"def illegalRecordChars : List Char := {lean_char_list(''.join(rec))}\n\n"
            "/-- `illegal_chars` of `cds_feature._sanitise_id_value` -/\n"
            f"def illegalGeneChars : List Char := {lean_char_list(''.join(cds))}\n\n"
            "end ASV.Generated.Ids\n")



# ----------------------------------------------------------------------------- C15
def _lean_chars(s: str) -> str:
    return "[" + ", ".join("'" + ch + "'" for ch in s) + "]"


@table("Orf")
def orf_tables(repo: Path) -> str:
    """START_CODONS / STOP_CODONS of common/all_orfs.py (from the tree under test) and the
    complement map `Seq.reverse_complement` uses (from the installed Biopython)."""
    path = repo / "antismash" / "common" / "all_orfs.py"
    starts = list(literal(path, "START_CODONS"))
    stops = list(literal(path, "STOP_CODONS"))
    for codon in starts + stops:
        if not (isinstance(codon, str) and codon.isascii() and codon.isalnum()):
            raise ValueError(f"unexpected codon literal {codon!r}")
    from Bio.Data.IUPACData import ambiguous_dna_complement
    pairs = sorted(ambiguous_dna_complement.items())
    pairs += [(a.lower(), b.lower()) for a, b in pairs]
    comp = ", ".join(f"('{a}', '{b}')" for a, b in pairs)
    return ("namespace ASV.Orf.Gen\n"
            f"def startCodons : List (List Char) := [{', '.join(_lean_chars(c) for c in starts)}]\n"
            f"def stopCodons : List (List Char) := [{', '.join(_lean_chars(c) for c in stops)}]\n"
            f"def complementPairs : List (Char × Char) := [{comp}]\n"
            "end ASV.Orf.Gen\n")



@table("C13Docking")
def c13_docking(repo: Path) -> str:
    """the local `dockingdomains` set of filter_nonterminal_docking_domains"""
    names = sorted(literal(repo / "antismash/detection/nrps_pks_domains/domain_identification.py",
                           "dockingdomains", within="filter_nonterminal_docking_domains"))
    return ("namespace ASV.Generated\n"
            f"def dockingDomains : List String := {lean_str_list(names)}\n"
            "end ASV.Generated\n")
