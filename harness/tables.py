"""Table generators (see gen_tables.py).  One function per generated Lean file."""
from __future__ import annotations

from pathlib import Path

from .gen_tables import lean_str_list, literal, table  # noqa: F401
