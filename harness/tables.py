"""Table generators (see gen_tables.py).  One function per generated Lean file."""
from __future__ import annotations

import ast
from pathlib import Path

from .gen_tables import TableError, find_assign, lean_str, lean_str_list, literal, table  # noqa: F401

_RULE_PARSER = "antismash/common/hmm_rule_parser/rule_parser.py"
_HMM_DETECTION = "antismash/detection/hmm_detection"


@table("RuleTokens")
def rule_tokens(repo: Path) -> str:
    """C02: `Tokeniser.mapping` (symbol/keyword text -> TokenTypes member) and the numeric values of
    the `TokenTypes` members, as written in the current source"""
    path = repo / _RULE_PARSER
    node = find_assign(path, "mapping", within="Tokeniser")
    if not isinstance(node, ast.Dict):
        raise TableError(f"{path}: Tokeniser.mapping is not a dict display")
    pairs = []
    for key, value in zip(node.keys, node.values):
        if not (isinstance(key, ast.Constant) and isinstance(key.value, str)
                and isinstance(value, ast.Attribute) and isinstance(value.value, ast.Name)
                and value.value.id == "TokenTypes"):
            raise TableError(f"{path}: unexpected entry in Tokeniser.mapping")
        pairs.append((key.value, value.attr))
    tree = ast.parse(path.read_text())
    members = []
    for cls in tree.body:
        if isinstance(cls, ast.ClassDef) and cls.name == "TokenTypes":
            for stmt in cls.body:
                if isinstance(stmt, ast.Assign) and len(stmt.targets) == 1 and isinstance(stmt.targets[0], ast.Name) \
                        and isinstance(stmt.value, ast.Constant) and isinstance(stmt.value.value, int):
                    members.append((stmt.targets[0].id, stmt.value.value))
    if not members:
        raise TableError(f"{path}: TokenTypes members not found")
    out = ["namespace ASV.Generated.RuleTokens",
           "/-- `Tokeniser.mapping`: text ↦ name of the `TokenTypes` member -/",
           "def mapping : List (String × String) := ["
           + ", ".join(f"({lean_str(k)}, {lean_str(v)})" for k, v in pairs) + "]",
           "/-- `TokenTypes`: member name ↦ numeric value -/",
           "def tokenValues : List (String × Nat) := ["
           + ", ".join(f"({lean_str(k)}, {v})" for k, v in members) + "]",
           "end ASV.Generated.RuleTokens", ""]
    return "\n".join(out)


@table("ShippedRules")
def shipped_rules(repo: Path) -> str:
    """C02: the rule files shipped with hmm_detection, in strictness order, as raw text"""
    levels = literal(repo / _HMM_DETECTION / "__init__.py", "_STRICTNESS_LEVELS")
    out = ["namespace ASV.Generated.ShippedRules",
           f"def levels : List String := {lean_str_list(list(levels))}"]
    for level in levels:
        text = (repo / _HMM_DETECTION / "cluster_rules" / f"{level}.txt").read_text(encoding="utf-8")
        if not text.isascii():
            raise TableError(f"{level}.txt contains non-ASCII characters (outside the modelled tokeniser domain)")
        out.append(f"def {level}Txt : String := {lean_str(text)}")
    out.append("def files : List (String × String) := ["
               + ", ".join(f"({lean_str(level)}, {level}Txt)" for level in levels) + "]")
    out += ["end ASV.Generated.ShippedRules", ""]
    return "\n".join(out)
