"""Table generators (see gen_tables.py).  One function per generated Lean file."""
from __future__ import annotations

import ast
from pathlib import Path

from .gen_tables import TableError, find_assign, lean_str, lean_str_list, literal, table  # noqa: F401


def lean_char(c: str) -> str:
    """a Lean `Char` literal"""
    special = {"'": "\\'", "\\": "\\\\", "\n": "\\n", "\t": "\\t", "\r": "\\r"}
    if c in special:
        return "'" + special[c] + "'"
    if 32 <= ord(c) < 127:
        return f"'{c}'"
    return f"(Char.ofNat {ord(c)})"


def lean_char_list(chars: str) -> str:
    """sorted, duplicate-free `List Char` literal"""
    return "[" + ", ".join(lean_char(c) for c in sorted(set(chars))) + "]"


@table("Ids")
def ids_tables(repo: Path) -> str:
    """C16: the two illegal-character sets (record ids / gene ids)"""
    rec = literal(repo / "antismash/common/record_processing.py", "illegal_chars", within="fix_record_name_id")
    cds = literal(repo / "antismash/common/secmet/features/cds_feature.py", "illegal_chars",
                  within="_sanitise_id_value")
    return ("namespace ASV.Generated.Ids\n\n"
            "/-- `illegal_chars` of `record_processing.fix_record_name_id` -/\n"
            f"def illegalRecordChars : List Char := {lean_char_list(''.join(rec))}\n\n"
            "/-- `illegal_chars` of `cds_feature._sanitise_id_value` -/\n"
            f"def illegalGeneChars : List Char := {lean_char_list(''.join(cds))}\n\n"
            "end ASV.Generated.Ids\n")



# ----------------------------------------------------------------------------- C15
def _lean_chars(s: str) -> str:
    return "[" + ", ".join("'" + ch + "'" for ch in s) + "]"


@table("Orf")
def orf_tables(repo: Path) -> str:
    """START_CODONS / STOP_CODONS of common/all_orfs.py (from the tree under test) and the
    complement map `Seq.reverse_complement` uses (from the installed Biopython)."""
    path = repo / "antismash" / "common" / "all_orfs.py"
    starts = list(literal(path, "START_CODONS"))
    stops = list(literal(path, "STOP_CODONS"))
    for codon in starts + stops:
        if not (isinstance(codon, str) and codon.isascii() and codon.isalnum()):
            raise ValueError(f"unexpected codon literal {codon!r}")
    from Bio.Data.IUPACData import ambiguous_dna_complement
    pairs = sorted(ambiguous_dna_complement.items())
    pairs += [(a.lower(), b.lower()) for a, b in pairs]
    comp = ", ".join(f"('{a}', '{b}')" for a, b in pairs)
    from Bio.Data import CodonTable
    extra = ""
    for table_id in (1, 11):      # the translation tables antiSMASH records use (Record.from_biopython)
        tab = CodonTable.unambiguous_dna_by_id[table_id]
        fwd = ", ".join(f"({_lean_chars(codon)}, '{aa}')" for codon, aa in sorted(tab.forward_table.items()))
        extra += (f"def forwardTable{table_id} : List (List Char × Char) := [{fwd}]\n"
                  f"def stopCodons{table_id} : List (List Char) := "
                  f"[{', '.join(_lean_chars(c) for c in tab.stop_codons)}]\n")
    return ("namespace ASV.Orf.Gen\n"
            f"def startCodons : List (List Char) := [{', '.join(_lean_chars(c) for c in starts)}]\n"
            f"def stopCodons : List (List Char) := [{', '.join(_lean_chars(c) for c in stops)}]\n"
            f"def complementPairs : List (Char × Char) := [{comp}]\n"
            + extra +
            "end ASV.Orf.Gen\n")



@table("C13Docking")
def c13_docking(repo: Path) -> str:
    """the local `dockingdomains` set of filter_nonterminal_docking_domains"""
    names = sorted(literal(repo / "antismash/detection/nrps_pks_domains/domain_identification.py",
                           "dockingdomains", within="filter_nonterminal_docking_domains"))
    return ("namespace ASV.Generated\n"
            f"def dockingDomains : List String := {lean_str_list(names)}\n"
            "end ASV.Generated\n")



# ----------------------------------------------------------------------------- C14: NRPS/PKS module tables

_MI = "antismash/detection/nrps_pks_domains/module_identification.py"


def _camel(name: str) -> str:
    parts = name.lower().split("_")
    return parts[0] + "".join(p.capitalize() for p in parts[1:])


@table("Modules")
def modules_tables(repo: Path) -> str:
    """the domain-class sets, CLASSIFICATIONS (in dict order), DOUBLE_TRANSPORTER_CASES and the
       label/subtype literals used inside the Component/Module methods, from the current source"""
    import ast
    from .gen_tables import TableError, find_assign, lean_str

    path = repo / _MI
    tree = ast.parse(path.read_text())
    sets: dict = {}

    def ev(node: ast.AST) -> set:
        """set expressions: literals, names of earlier tables, x.union(a, b, ...)"""
        if isinstance(node, ast.Set):
            return {ast.literal_eval(e) for e in node.elts}
        if isinstance(node, ast.Name):
            if node.id not in sets:
                raise TableError(f"{path}: set {node.id} used before definition")
            return set(sets[node.id])
        if isinstance(node, ast.Call) and isinstance(node.func, ast.Attribute) and node.func.attr == "union":
            out = ev(node.func.value)
            for arg in node.args:
                out |= ev(arg)
            return out
        if isinstance(node, ast.Call) and isinstance(node.func, ast.Name) and node.func.id in ("set", "frozenset") \
                and len(node.args) == 1:
            return set(ast.literal_eval(node.args[0]))
        raise TableError(f"{path}: unsupported set expression {ast.dump(node)[:80]}")

    class_names = ["ADENYLATIONS", "ACYLTRANSFERASES", "CONDENSATIONS", "ENDS", "KETOSYNTHASES", "MODIFIERS",
                   "CARRIER_PROTEINS", "ALTERNATE_STARTERS", "NON_MODULE", "OTHER", "SPECIAL", "FUSED_STARTERS"]
    for name in class_names:
        sets[name] = ev(find_assign(path, name))
        if not all(isinstance(x, str) for x in sets[name]):
            raise TableError(f"{path}: {name} is not a set of strings")

    def func(qual: str) -> ast.AST:
        node: ast.AST = tree
        for part in qual.split("."):
            for child in ast.iter_child_nodes(node):
                if isinstance(child, (ast.FunctionDef, ast.ClassDef)) and child.name == part:
                    node = child
                    break
            else:
                raise TableError(f"{path}: {qual} not found")
        return node

    def str_constants(qual: str) -> list:
        """string constants of a function body in source order, docstring excluded"""
        node = func(qual)
        body = list(node.body)
        if body and isinstance(body[0], ast.Expr) and isinstance(body[0].value, ast.Constant):
            body = body[1:]
        found = []
        for stmt in body:
            for sub in ast.walk(stmt):
                if isinstance(sub, ast.Constant) and isinstance(sub.value, str):
                    found.append((sub.lineno, sub.col_offset, sub.value))
        return [v for _, _, v in sorted(found)]

    def expect(qual: str, count: int) -> list:
        got = str_constants(qual)
        if len(got) != count:
            raise TableError(f"{path}: {qual} has string constants {got}, expected {count} of them")
        return got

    # CLASSIFICATIONS: key -> name of a set, order kept (classify returns the first match)
    cl = find_assign(path, "CLASSIFICATIONS")
    if not isinstance(cl, ast.Dict):
        raise TableError(f"{path}: CLASSIFICATIONS is not a dict literal")
    classifications = []
    for k, v in zip(cl.keys, cl.values):
        if not (isinstance(k, ast.Constant) and isinstance(k.value, str) and isinstance(v, ast.Name)):
            raise TableError(f"{path}: CLASSIFICATIONS entry not of the form 'key': NAME")
        if v.id not in sets:
            raise TableError(f"{path}: CLASSIFICATIONS refers to unknown set {v.id}")
        classifications.append((k.value, v.id))

    cases = literal(path, "DOUBLE_TRANSPORTER_CASES")
    cases = sorted([list(c) for c in cases])
    if not all(isinstance(x, str) for c in cases for x in c):
        raise TableError(f"{path}: DOUBLE_TRANSPORTER_CASES is not a set of string tuples")

    # Component.is_starter: any(self.label in collection for collection in (A, B, ...))
    starter_cols = None
    for sub in ast.walk(func("Component.is_starter")):
        if isinstance(sub, ast.comprehension) and isinstance(sub.iter, ast.Tuple) \
                and all(isinstance(e, ast.Name) for e in sub.iter.elts):
            starter_cols = [e.id for e in sub.iter.elts]
    if not starter_cols or any(n not in sets for n in starter_cols):
        raise TableError(f"{path}: Component.is_starter no longer iterates over a tuple of known sets")

    # Module.is_starter_module: {...}.union(ALTERNATE_STARTERS)
    starter_module = None
    for sub in ast.walk(func("Module.is_starter_module")):
        if isinstance(sub, ast.Call) and isinstance(sub.func, ast.Attribute) and sub.func.attr == "union":
            starter_module = ev(sub)
    if starter_module is None:
        raise TableError(f"{path}: Module.is_starter_module has no set union")

    coa, = expect("Component.is_coa_ligase", 1)
    prefix, = expect("Component.is_pks_specific", 1)
    trans_sub, trans_dock = expect("Module.is_trans_at", 2)
    iterative, = expect("Module.is_iterative", 1)
    termination = expect("Module.is_termination_module", 2)
    end_trim = expect("Module.end", 2)
    ensure_consts = str_constants("Module.ensure_suitable")
    kr_ensure = [c for c in ensure_consts if c in sets["MODIFIERS"]]
    if len(kr_ensure) != 1:
        raise TableError(f"{path}: Module.ensure_suitable should name exactly one modifier label, has {kr_ensure}")
    kr_combine = [c for c in str_constants("combine_modules") if c in sets["MODIFIERS"]]
    if len(kr_combine) != 1:
        raise TableError(f"{path}: combine_modules should name exactly one modifier label, has {kr_combine}")

    out = ["namespace ASV.Modules.T", ""]
    for name in class_names:
        out.append(f"def {_camel(name)} : List String := {lean_str_list(sorted(sets[name]))}")
    out.append("")
    out.append("/-- CLASSIFICATIONS in dict order (classify returns the first key whose set contains the name) -/")
    out.append("def classifications : List (String × List String) := ["
               + ", ".join(f"({lean_str(k)}, {_camel(v)})" for k, v in classifications) + "]")
    out.append("def doubleTransporterCases : List (List String) := ["
               + ", ".join(lean_str_list(c) for c in cases) + "]")
    out.append("/-- the collections `Component.is_starter` looks through -/")
    out.append("def starterCollections : List (List String) := [" + ", ".join(_camel(n) for n in starter_cols) + "]")
    out.append(f"def coaLigaseLabel : String := {lean_str(coa)}")
    out.append(f"def pksPrefix : String := {lean_str(prefix)}")
    out.append(f"def transAtSubtype : String := {lean_str(trans_sub)}")
    out.append(f"def transAtDocking : String := {lean_str(trans_dock)}")
    out.append(f"def iterativeSubtype : String := {lean_str(iterative)}")
    out.append(f"def terminationLabels : List String := {lean_str_list(termination)}")
    out.append("/-- the finalising domains `Module.end` does not count into the module's extent -/")
    out.append(f"def endTrimLabels : List String := {lean_str_list(end_trim)}")
    out.append(f"def starterModuleLabels : List String := {lean_str_list(sorted(starter_module))}")
    out.append(f"def transAtKrLabel : String := {lean_str(kr_ensure[0])}")
    out.append(f"def trailingKrLabel : String := {lean_str(kr_combine[0])}")
    out.append("")
    out.append("end ASV.Modules.T")
    return "\n".join(out) + "\n"

from .gen_tables import TableError, find_assign, lean_str, lean_str_list, literal, table  # noqa: F401

_RULE_PARSER = "antismash/common/hmm_rule_parser/rule_parser.py"
_HMM_DETECTION = "antismash/detection/hmm_detection"


@table("RuleTokens")
def rule_tokens(repo: Path) -> str:
    """C02: `Tokeniser.mapping` (symbol/keyword text -> TokenTypes member) and the numeric values of
    the `TokenTypes` members, as written in the current source"""
    path = repo / _RULE_PARSER
    node = find_assign(path, "mapping", within="Tokeniser")
    if not isinstance(node, ast.Dict):
        raise TableError(f"{path}: Tokeniser.mapping is not a dict display")
    pairs = []
    for key, value in zip(node.keys, node.values):
        if not (isinstance(key, ast.Constant) and isinstance(key.value, str)
                and isinstance(value, ast.Attribute) and isinstance(value.value, ast.Name)
                and value.value.id == "TokenTypes"):
            raise TableError(f"{path}: unexpected entry in Tokeniser.mapping")
        pairs.append((key.value, value.attr))
    tree = ast.parse(path.read_text())
    members = []
    for cls in tree.body:
        if isinstance(cls, ast.ClassDef) and cls.name == "TokenTypes":
            for stmt in cls.body:
                if isinstance(stmt, ast.Assign) and len(stmt.targets) == 1 and isinstance(stmt.targets[0], ast.Name) \
                        and isinstance(stmt.value, ast.Constant) and isinstance(stmt.value.value, int):
                    members.append((stmt.targets[0].id, stmt.value.value))
    if not members:
        raise TableError(f"{path}: TokenTypes members not found")
    out = ["namespace ASV.Generated.RuleTokens",
           "/-- `Tokeniser.mapping`: text ↦ name of the `TokenTypes` member -/",
           "def mapping : List (String × String) := ["
           + ", ".join(f"({lean_str(k)}, {lean_str(v)})" for k, v in pairs) + "]",
           "/-- `TokenTypes`: member name ↦ numeric value -/",
           "def tokenValues : List (String × Nat) := ["
           + ", ".join(f"({lean_str(k)}, {v})" for k, v in members) + "]",
           "end ASV.Generated.RuleTokens", ""]
    return "\n".join(out)


@table("ShippedRules")
def shipped_rules(repo: Path) -> str:
    """C02: the rule files shipped with hmm_detection, in strictness order, as raw text"""
    levels = literal(repo / _HMM_DETECTION / "__init__.py", "_STRICTNESS_LEVELS")
    out = ["namespace ASV.Generated.ShippedRules",
           f"def levels : List String := {lean_str_list(list(levels))}"]
    for level in levels:
        text = (repo / _HMM_DETECTION / "cluster_rules" / f"{level}.txt").read_text(encoding="utf-8")
        if not text.isascii():
            raise TableError(f"{level}.txt contains non-ASCII characters (outside the modelled tokeniser domain)")
        out.append(f"def {level}Txt : String := {lean_str(text)}")
    out.append("def files : List (String × String) := ["
               + ", ".join(f"({lean_str(level)}, {level}Txt)" for level in levels) + "]")
    out += ["end ASV.Generated.ShippedRules", ""]
    return "\n".join(out)


# ----------------------------------------------------------------------------- C18
@table("RecordPickle")
def record_pickle_tables(repo: Path) -> str:
    """C18: what decides how a secmet Record crosses a process boundary — its `__slots__`, the names
    `Record.__setattr__` / `__getattr__` divert to the wrapped SeqRecord, and whether the class
    overrides pickling at all (`__getstate__`/`__setstate__`/`__reduce__`/`__reduce_ex__`/`__getnewargs*__`)."""
    path = repo / "antismash/common/secmet/record.py"
    slots = list(literal(path, "__slots__", within="Record"))
    tree = ast.parse(path.read_text())
    cls = next(n for n in ast.walk(tree) if isinstance(n, ast.ClassDef) and n.name == "Record")
    methods = {n.name: n for n in cls.body if isinstance(n, ast.FunctionDef)}

    def diverted(name: str) -> list:
        if name not in methods:
            raise TableError(f"{path}: Record.{name} not found")
        found = []
        for node in ast.walk(methods[name]):
            if isinstance(node, ast.Compare) and len(node.ops) == 1 and isinstance(node.ops[0], ast.In) \
                    and isinstance(node.comparators[0], (ast.List, ast.Tuple, ast.Set)):
                for item in ast.literal_eval(node.comparators[0]):
                    if isinstance(item, str) and item not in found:
                        found.append(item)
        return found
    hooks = sorted(n for n in methods if n in ("__getstate__", "__setstate__", "__reduce__", "__reduce_ex__",
                                                "__getnewargs__", "__getnewargs_ex__", "__copy__", "__deepcopy__"))
    return ("namespace ASV.Generated.RecordPickle\n\n"
            "/-- `Record.__slots__` -/\n"
            f"def recordSlots : List String := {lean_str_list(slots)}\n\n"
            "/-- names `Record.__setattr__` does not store in a slot (SeqRecord passthroughs, annotations) -/\n"
            f"def setDiverted : List String := {lean_str_list(diverted('__setattr__'))}\n\n"
            "/-- names `Record.__getattr__` answers from the wrapped SeqRecord -/\n"
            f"def getDiverted : List String := {lean_str_list(diverted('__getattr__'))}\n\n"
            "/-- pickling hooks the class defines itself (none: copyreg's slot-by-slot state is used) -/\n"
            f"def picklingHooks : List String := {lean_str_list(hooks)}\n\n"
            "end ASV.Generated.RecordPickle\n")
