"""Translator for *tables*: constants the Lean models depend on are re-extracted from /repo's
current source (Python `ast`, literal evaluation only) and written to lean/ASV/Generated/*.lean
on every run (write-if-changed, so lake only rebuilds when the source really changed).
Fails loudly (Infra) when a table cannot be found; never substitutes a default."""
from __future__ import annotations

import ast
from pathlib import Path
from typing import Any, Callable, Dict, List


class TableError(Exception):
    pass


def find_assign(path: Path, name: str, within: str = "") -> ast.AST:
    tree = ast.parse(path.read_text())
    scope: ast.AST = tree
    if within:
        for part in within.split("."):
            for node in ast.iter_child_nodes(scope):
                if isinstance(node, (ast.ClassDef, ast.FunctionDef)) and node.name == part:
                    scope = node
                    break
            else:
                raise TableError(f"{path}: scope {within} not found")
    for node in ast.walk(scope):
        if isinstance(node, ast.Assign) and any(isinstance(t, ast.Name) and t.id == name for t in node.targets):
            return node.value
        if isinstance(node, ast.AnnAssign) and isinstance(node.target, ast.Name) and node.target.id == name \
                and node.value is not None:
            return node.value
    raise TableError(f"{path}: assignment to {name} not found")


def literal(path: Path, name: str, within: str = "") -> Any:
    node = find_assign(path, name, within)
    try:
        return ast.literal_eval(node)
    except Exception as exc:  # e.g. set([...]) calls
        if isinstance(node, ast.Call) and isinstance(node.func, ast.Name) and node.func.id in ("set", "frozenset", "tuple", "list") and node.args:
            return ast.literal_eval(node.args[0])
        raise TableError(f"{path}: {name} is not a literal: {exc}") from exc


def lean_str(s: str) -> str:
    return '"' + s.replace("\\", "\\\\").replace('"', '\\"').replace("\n", "\\n").replace("\t", "\\t") + '"'


def lean_str_list(items: List[str]) -> str:
    return "[" + ", ".join(lean_str(i) for i in items) + "]"


def write_if_changed(path: Path, text: str) -> bool:
    if path.exists() and path.read_text() == text:
        return False
    path.parent.mkdir(parents=True, exist_ok=True)
    path.write_text(text)
    return True


# each generator: (repo: Path) -> lean source text; registered by the property modules' needs
GENERATORS: Dict[str, Callable[[Path], str]] = {}


def table(name: str) -> Callable[[Callable[[Path], str]], Callable[[Path], str]]:
    def deco(fn: Callable[[Path], str]) -> Callable[[Path], str]:
        GENERATORS[name] = fn
        return fn
    return deco


TABLE_ERRORS: List[str] = []


def regenerate(repo: Path, out_dir: Path) -> List[str]:
    """regenerate every table; a table whose source no longer has the expected shape keeps its last good
       file (so that the search for a failing input can still run against the model) and is reported in
       TABLE_ERRORS — the caller treats that as a broken translation obligation"""
    from . import tables  # noqa: F401  (registers the generators)
    changed = []
    TABLE_ERRORS.clear()
    for name, fn in sorted(GENERATORS.items()):
        try:
            body = fn(repo)
        except (TableError, SyntaxError, OSError, KeyError, IndexError, ValueError) as exc:
            TABLE_ERRORS.append(f"table {name} cannot be regenerated from the source: {type(exc).__name__}: {exc}")
            continue
        text = "-- GENERATED from /repo by harness/gen_tables.py on every run; do not edit\n" + body
        if write_if_changed(out_dir / f"{name}.lean", text):
            changed.append(name)
    return changed


if __name__ == "__main__":
    import sys
    repo = Path(sys.argv[1] if len(sys.argv) > 1 else "/repo")
    out = Path(__file__).resolve().parent.parent / "lean" / "ASV" / "Generated"
    print("changed:", regenerate(repo, out))
