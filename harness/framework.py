"""Common machinery for every property check.

Flow of one check (see DESIGN.md §2.2):
  1. regenerate tables from /repo  (gen_tables)             -> lean/ASV/Generated
  2. lake build ASV.Props.Cxx + driver (under flock)         -> proof obligations
  3. stranger audit: forbidden tokens, `#print axioms` of every theorem in Props/Cxx.lean
  4. shape guard: hashes of the modelled Python functions    -> escalates the budget
  5. correspondence: corpus + generated cases, real code in-process vs Lean driver,
     executable spec evaluated on the implementation's output
  6. verdict, evidence file, exit code (0 held / 1 VIOLATION / 2 infrastructure)
"""
from __future__ import annotations

import ast
import fcntl
import hashlib
import json
import os
import random
import re
import subprocess
import sys
import time
import traceback
from dataclasses import dataclass, field
from pathlib import Path
from typing import Any, Callable, Dict, Iterable, Iterator, List, Optional, Tuple

VERIF = Path(__file__).resolve().parent.parent
LEAN = VERIF / "lean"
REPO = Path(os.environ.get("ASV_REPO", "/repo")).resolve()
DRIVER = LEAN / ".lake" / "build" / "bin" / "driver"
ALLOWED_AXIOMS = {"propext", "Classical.choice", "Quot.sound"}
FORBIDDEN = re.compile(r"\bsorry\b|\badmit\b|^\s*axiom\s|native_decide|bv_decide|implemented_by|"
                       r"\bunsafe\s|maxHeartbeats\s+0\b", re.M)

# make `import antismash` resolve to the tree under test (sys.path beats the editable finder)
if str(REPO) not in sys.path:
    sys.path.insert(0, str(REPO))


class Infra(Exception):
    """infrastructure problem: exit 2, never a VIOLATION"""


# --------------------------------------------------------------------------- build + audit

class _Lock:
    def __init__(self) -> None:
        self.path = LEAN / ".build.lock"

    def __enter__(self) -> "_Lock":
        self.fh = open(self.path, "w")
        fcntl.flock(self.fh, fcntl.LOCK_EX)
        return self

    def __exit__(self, *exc: Any) -> None:
        fcntl.flock(self.fh, fcntl.LOCK_UN)
        self.fh.close()


def run(cmd: List[str], cwd: Path = LEAN, timeout: int = 3600, inp: Optional[str] = None
        ) -> subprocess.CompletedProcess:
    return subprocess.run(cmd, cwd=cwd, capture_output=True, text=True, timeout=timeout, input=inp)


def strip_lean_comments(text: str) -> str:
    """removes -- line comments and (nested) /- -/ block comments"""
    out = []
    i, depth, n = 0, 0, len(text)
    while i < n:
        two = text[i:i + 2]
        if two == "/-":
            depth += 1
            i += 2
        elif two == "-/" and depth:
            depth -= 1
            i += 2
        elif depth:
            if text[i] == "\n":
                out.append("\n")
            i += 1
        elif two == "--":
            while i < n and text[i] != "\n":
                i += 1
        else:
            out.append(text[i])
            i += 1
    return "".join(out)


def theorem_names(props_file: Path) -> List[str]:
    """fully qualified names of every `theorem` in a Props file (one flat namespace stack)"""
    text = strip_lean_comments(props_file.read_text())
    stack: List[str] = []
    names: List[str] = []
    for line in text.splitlines():
        m = re.match(r"\s*namespace\s+(\S+)", line)
        if m:
            stack.append(m.group(1))
            continue
        m = re.match(r"\s*end\s+(\S+)\s*$", line)
        if m and stack and stack[-1] == m.group(1):
            stack.pop()
            continue
        m = re.match(r"\s*(?:@\[[^\]]*\]\s*)?(?:private\s+|protected\s+)?theorem\s+(\S+)", line)
        if m:
            names.append(".".join(stack + [m.group(1)]))
    return names


@dataclass
class ProofStatus:
    built: bool
    build_log: str
    theorems: List[str] = field(default_factory=list)
    axioms: Dict[str, List[str]] = field(default_factory=dict)
    bad_axioms: Dict[str, List[str]] = field(default_factory=dict)
    forbidden_hits: List[str] = field(default_factory=list)
    driver_built: bool = True
    leanchecker: Optional[str] = None
    table_errors: List[str] = field(default_factory=list)

    @property
    def ok(self) -> bool:
        return (self.built and self.driver_built and not self.bad_axioms and not self.forbidden_hits
                and not self.table_errors
                and len(self.axioms) == len(self.theorems) and len(self.theorems) > 0
                and self.leanchecker in (None, "ok"))

    def broken_items(self) -> List[str]:
        items: List[str] = list(self.table_errors)
        if not self.built:
            m = re.findall(r"error: (\S+\.lean:\d+:\d+): (.*)", self.build_log)
            items += [f"build:{loc} {msg[:120]}" for loc, msg in m[:5]] or ["build failed"]
        if not self.driver_built:
            items.append("driver build failed")
        for t, ax in self.bad_axioms.items():
            items.append(f"theorem {t} depends on {ax}")
        for t in self.theorems:
            if self.built and t not in self.axioms:
                items.append(f"theorem {t} not found by #print axioms")
        items += [f"forbidden token: {h}" for h in self.forbidden_hits]
        if self.leanchecker not in (None, "ok"):
            items.append(f"leanchecker: {self.leanchecker}")
        return items


def forbidden_scan() -> List[str]:
    hits: List[str] = []
    for path in sorted((LEAN / "ASV").rglob("*.lean")) + [LEAN / "Driver.lean"]:
        text = strip_lean_comments(path.read_text())
        for m in FORBIDDEN.finditer(text):
            line = text.count("\n", 0, m.start()) + 1
            hits.append(f"{path.relative_to(LEAN)}:{line}:{m.group(0).strip()}")
    return hits


def build_and_audit(prop_id: str, tier: str, gen_tables: bool = True) -> ProofStatus:
    module = f"ASV.Props.{prop_id}"
    props_file = LEAN / "ASV" / "Props" / f"{prop_id}.lean"
    with _Lock():
        table_errors: List[str] = []
        if gen_tables:
            from . import gen_tables as gt
            gt.regenerate(REPO, LEAN / "ASV" / "Generated")
            table_errors = list(gt.TABLE_ERRORS)
        res = run(["lake", "build", module], timeout=3000)
        built = res.returncode == 0
        log = res.stdout + res.stderr
        dres = run(["lake", "build", "driver"], timeout=3000)
        driver_built = dres.returncode == 0 and DRIVER.exists()
        if not driver_built:
            log += "\n--- driver build ---\n" + dres.stdout + dres.stderr
        status = ProofStatus(built=built, build_log=log, driver_built=driver_built, table_errors=table_errors)
        status.theorems = theorem_names(props_file) if props_file.exists() else []
        status.forbidden_hits = forbidden_scan()
        if built and status.theorems:
            audit = LEAN / ".lake" / f"audit_{prop_id}.lean"
            audit.write_text(f"import {module}\n" + "".join(f"#print axioms {t}\n" for t in status.theorems))
            ares = run(["lake", "env", "lean", str(audit)], timeout=1200)
            out = ares.stdout + ares.stderr
            # "'name' depends on axioms: [a, b]"  |  "'name' does not depend on any axioms"
            for m in re.finditer(r"'([^']+)' depends on axioms: \[([^\]]*)\]", out.replace("\n", " ")):
                status.axioms[m.group(1)] = [a.strip() for a in m.group(2).split(",") if a.strip()]
            for m in re.finditer(r"'([^']+)' does not depend on any axioms", out):
                status.axioms[m.group(1)] = []
            for t, ax in status.axioms.items():
                bad = [a for a in ax if a not in ALLOWED_AXIOMS]
                if bad:
                    status.bad_axioms[t] = bad
        if built and tier == "thorough" and os.environ.get("ASV_SKIP_LEANCHECKER") != "1":
            cres = run(["lake", "env", "leanchecker", module], timeout=3000)
            status.leanchecker = "ok" if cres.returncode == 0 else (cres.stdout + cres.stderr)[-400:]
    return status


# --------------------------------------------------------------------------- shape guard

def _qualname_node(tree: ast.AST, qualname: str) -> Optional[ast.AST]:
    node: ast.AST = tree
    for name in qualname.split("."):
        found = None
        for child in ast.iter_child_nodes(node):
            if isinstance(child, (ast.FunctionDef, ast.AsyncFunctionDef, ast.ClassDef)) and child.name == name:
                found = child
                break
            if isinstance(child, ast.Assign) and any(isinstance(t, ast.Name) and t.id == name for t in child.targets):
                found = child
                break
            if isinstance(child, ast.AnnAssign) and isinstance(child.target, ast.Name) and child.target.id == name:
                found = child
                break
        if found is None:
            return None
        node = found
    return node


def shape_hashes(items: List[Tuple[str, str]]) -> Dict[str, str]:
    """normalised-AST hash (docstrings and positions removed) per modelled function"""
    out: Dict[str, str] = {}
    cache: Dict[str, ast.AST] = {}
    for rel, qual in items:
        key = f"{rel}::{qual}"
        path = REPO / rel
        if not path.exists():
            out[key] = "missing-file"
            continue
        if rel not in cache:
            cache[rel] = ast.parse(path.read_text())
        node = _qualname_node(cache[rel], qual)
        if node is None:
            out[key] = "missing"
            continue
        for sub in ast.walk(node):
            body = getattr(sub, "body", None)
            if isinstance(body, list) and body and isinstance(body[0], ast.Expr) \
                    and isinstance(getattr(body[0], "value", None), ast.Constant) \
                    and isinstance(body[0].value.value, str):
                sub.body = body[1:] or [ast.Pass()]
        out[key] = hashlib.sha256(ast.dump(node, include_attributes=False).encode()).hexdigest()[:16]
    return out


def shape_changed(prop_id: str, items: List[Tuple[str, str]]) -> List[str]:
    """which modelled functions differ from the hashes the model was last validated against"""
    stored_path = VERIF / "model_map.json"
    stored = json.loads(stored_path.read_text()).get(prop_id, {}) if stored_path.exists() else {}
    now = shape_hashes(items)
    return sorted(k for k, v in now.items() if stored.get(k) != v)


def update_model_map(prop_id: str, items: List[Tuple[str, str]]) -> None:
    stored_path = VERIF / "model_map.json"
    stored = json.loads(stored_path.read_text()) if stored_path.exists() else {}
    stored[prop_id] = shape_hashes(items)
    stored_path.write_text(json.dumps(stored, indent=1, sort_keys=True) + "\n")


# --------------------------------------------------------------------------- driver

def drive(lines: List[Dict[str, Any]]) -> List[Dict[str, Any]]:
    """pipe cases through the compiled Lean driver, one JSON object per line"""
    if not lines:
        return []
    if not DRIVER.exists():
        raise Infra("driver executable missing")
    payload = "\n".join(json.dumps(line, separators=(",", ":")) for line in lines) + "\n"
    res = subprocess.run([str(DRIVER)], input=payload, capture_output=True, text=True, timeout=3000)
    if res.returncode != 0:
        raise Infra(f"driver exited {res.returncode}: {res.stderr[-400:]}")
    out = [json.loads(l) for l in res.stdout.splitlines() if l.strip()]
    if len(out) != len(lines):
        raise Infra(f"driver answered {len(out)} of {len(lines)} lines")
    return out


# --------------------------------------------------------------------------- property interface

@dataclass
class Judgement:
    corr_ok: bool                  # implementation output == model output (property-level observables)
    spec_ok: bool                  # executable spec holds on the implementation's output
    in_scope: bool = True          # hypotheses of the proved theorems hold for this input
    known: Optional[str] = None    # id of the known-finding class the input falls in, if any
    nontrivial: bool = False
    tags: Tuple[str, ...] = ()
    detail: str = ""


class Property:
    """one per property; subclasses live in harness/props/cXX.py"""
    ID = "C00"
    SHAPE: List[Tuple[str, str]] = []      # (repo-relative file, qualified name) of modelled code
    RULE = ""                              # how cases are generated / what makes one non-trivial
    TRUSTED: List[str] = []                # property-specific "modelled, not verified" list
    USES_TABLES = False

    def corpus(self) -> List[Dict[str, Any]]:
        path = VERIF / "corpus" / self.ID
        cases = []
        if path.is_dir():
            for f in sorted(path.glob("*.json")):
                case = json.loads(f.read_text())
                case.setdefault("_origin", f"corpus/{f.name}")
                cases.append(case)
        return cases

    def cases(self, rng: random.Random, tier: str, deep: bool) -> Iterator[Dict[str, Any]]:
        raise NotImplementedError

    def run_impl(self, case: Dict[str, Any]) -> Dict[str, Any]:
        raise NotImplementedError

    def driver_line(self, case: Dict[str, Any], obs: Dict[str, Any]) -> Optional[Dict[str, Any]]:
        """JSON sent to the Lean driver (without p/id); None = no model for this case kind"""
        raise NotImplementedError

    def judge(self, case: Dict[str, Any], obs: Dict[str, Any], drv: Optional[Dict[str, Any]]) -> Judgement:
        raise NotImplementedError

    def shrink(self, case: Dict[str, Any]) -> Iterator[Dict[str, Any]]:
        return iter(())

    def key(self, case: Dict[str, Any]) -> str:
        c = {k: v for k, v in case.items() if not k.startswith("_")}
        return hashlib.md5(json.dumps(c, sort_keys=True).encode()).hexdigest()

    def extra_checks(self, rng: random.Random, tier: str, deep: bool) -> List["Failure"]:
        """property-specific checks that do not fit the case/driver shape (e.g. child processes)"""
        return []

    extra_evaluations = 0


def err_kind(exc: BaseException) -> str:
    if isinstance(exc, AssertionError):
        return "assertion"
    name = type(exc).__name__
    if isinstance(exc, ValueError):
        return "value-error" if name in ("ValueError", "SecmetInvalidInputError") else f"value-error:{name}"
    if isinstance(exc, (KeyError, IndexError, AttributeError, TypeError, RuntimeError, NotImplementedError)):
        return name
    return f"other:{name}"


@dataclass
class Failure:
    kind: str            # "spec" | "correspondence" | "extra"
    case: Dict[str, Any]
    obs: Any
    drv: Any
    detail: str
    known: Optional[str] = None


# --------------------------------------------------------------------------- the check

def load_known() -> List[Dict[str, Any]]:
    path = VERIF / "known_findings.json"
    if not path.exists():
        return []
    return json.loads(path.read_text()).get("findings", [])


def evaluate(prop: Property, cases: List[Dict[str, Any]]) -> List[Tuple[Dict[str, Any], Dict[str, Any], Optional[Dict[str, Any]], Judgement]]:
    obs_list = []
    for case in cases:
        try:
            obs = prop.run_impl(case)
        except Infra:
            raise
        except BaseException as exc:  # the adapter maps expected errors itself; this is a safety net
            obs = {"err": err_kind(exc), "_trace": traceback.format_exc()[-600:]}
        obs_list.append(obs)
    lines, idxs = [], []
    for i, (case, obs) in enumerate(zip(cases, obs_list)):
        line = prop.driver_line(case, obs)
        if line is not None:
            line = dict(line)
            line["p"] = line.get("p", prop.ID)
            line["id"] = i
            lines.append(line)
            idxs.append(i)
    drv_out: Dict[int, Dict[str, Any]] = {}
    for i, out in zip(idxs, drive(lines)):
        drv_out[i] = out
    results = []
    for i, (case, obs) in enumerate(zip(cases, obs_list)):
        drv = drv_out.get(i)
        if drv is not None and "err" in drv and drv.get("err", "").startswith(("parse", "unknown property")):
            raise Infra(f"driver protocol error: {drv['err']} on {json.dumps(case)[:300]}")
        results.append((case, obs, drv, prop.judge(case, obs, drv)))
    return results


def shrink_failure(prop: Property, fail: Failure, budget: int = 300,
                   spec_spot: Optional[List[Failure]] = None) -> Failure:
    """greedy delta-debugging: keep any smaller case that still fails the same way; while shrinking a
    correspondence failure, any candidate on which the executable spec fails (outside the recorded classes) is
    put into spec_spot: the neighbourhood of a disagreement is where a failing input is most likely"""
    current = fail
    steps = 0
    improved = True
    while improved and steps < budget:
        improved = False
        for cand in prop.shrink(current.case):
            steps += 1
            if steps > budget:
                break
            try:
                (case, obs, drv, j), = evaluate(prop, [cand])
            except Infra:
                continue
            if spec_spot is not None and not j.spec_ok and not j.known:
                spec_spot.append(Failure("spec", case, obs, drv, j.detail, j.known))
            bad = (not j.spec_ok) if fail.kind == "spec" else (not j.corr_ok)
            if bad and j.known == fail.known:
                current = Failure(fail.kind, case, obs, drv, j.detail, j.known)
                improved = True
                break
    return current


def write_replay(prop_id: str, seed: int, n: int, payload: Dict[str, Any]) -> Path:
    d = VERIF / "replays"
    d.mkdir(exist_ok=True)
    path = d / f"{prop_id}_seed{seed}_{n}.json"
    path.write_text(json.dumps(payload, indent=1, default=str) + "\n")
    return path


def main_check(prop: Property, argv: List[str]) -> int:
    t0 = time.time()
    tier = os.environ.get("VERIF_TIER", "quick")
    replay: Optional[str] = None
    args = list(argv)
    while args:
        a = args.pop(0)
        if a == "--tier":
            tier = args.pop(0)
        elif a == "--replay":
            replay = args.pop(0)
        elif a == "--update-model-map":
            update_model_map(prop.ID, prop.SHAPE)
            print(f"model_map.json updated for {prop.ID}")
            return 0
    if tier not in ("quick", "thorough"):
        tier = "quick"
    seed = int(os.environ.get("VERIF_SEED", "0") or 0)
    rng = random.Random(f"{prop.ID}:{seed}")

    try:
        status = build_and_audit(prop.ID, tier, gen_tables=prop.USES_TABLES)
    except subprocess.TimeoutExpired as exc:
        print(f"INFRA: build timeout: {exc}")
        return 2
    if not status.driver_built:
        # without the driver neither the model nor the executable spec can run
        print("INFRA-NOTE: driver failed to build:\n" + status.build_log[-1500:])

    if replay:
        return do_replay(prop, replay)

    changed = shape_changed(prop.ID, prop.SHAPE)
    deep = bool(changed) or not status.ok or tier == "thorough"

    failures: List[Failure] = []
    corr_failures: List[Failure] = []
    known_seen: Dict[str, Failure] = {}
    evaluations = 0
    nontrivial_keys = set()
    tags: Dict[str, int] = {}
    samples: List[Any] = []
    in_scope_n = 0
    corr_overflow = [0]

    try:
        if not status.driver_built:
            raise Infra("driver not built")
        batch: List[Dict[str, Any]] = []

        def flush() -> None:
            nonlocal evaluations, in_scope_n
            if not batch:
                return
            for case, obs, drv, j in evaluate(prop, batch):
                evaluations += 1
                if j.in_scope:
                    in_scope_n += 1
                for t in j.tags:
                    tags[t] = tags.get(t, 0) + 1
                if j.nontrivial:
                    nontrivial_keys.add(prop.key(case))
                    if len(samples) < 3 or (len(samples) < 6 and rng.random() < 0.01):
                        samples.append({"case": {k: v for k, v in case.items() if not k.startswith("_")},
                                        "impl": obs})
                if not j.spec_ok:
                    f = Failure("spec", case, obs, drv, j.detail, j.known)
                    if j.known:
                        known_seen.setdefault(j.known, f)
                    else:
                        failures.append(f)
                if not j.corr_ok:
                    if j.known and j.spec_ok:
                        pass  # implementation better than the model inside a recorded defect class
                    elif j.known:
                        pass  # recorded defect: model mirrors or not, the spec failure is already noted
                    elif len(corr_failures) < 500:
                        corr_failures.append(Failure("correspondence", case, obs, drv, j.detail, j.known))
                    else:
                        corr_overflow[0] += 1
            batch.clear()

        for case in prop.corpus():
            batch.append(case)
        flush()
        for case in prop.cases(rng, tier, deep):
            batch.append(case)
            if len(batch) >= 2000:
                flush()
                # keep searching for a spec-violating input while only the correspondence is broken
                if len(failures) > 50 or (failures and len(failures) + len(corr_failures) > 200):
                    break
        flush()
        extra = prop.extra_checks(rng, tier, deep)
        evaluations += prop.extra_evaluations
        for f in extra:
            if f.known:
                known_seen.setdefault(f.known, f)
            else:
                failures.append(f)
    except Infra as exc:
        if status.driver_built:
            print(f"INFRA: {exc}")
            return 2
        # driver missing because the model no longer compiles against regenerated tables:
        # the proof obligation is broken and no search is possible
        pass
    except subprocess.TimeoutExpired as exc:
        print(f"INFRA: timeout {exc}")
        return 2

    # ---- verdict
    known = {k["id"]: k for k in load_known() if k.get("property") == prop.ID}
    violations: List[Tuple[str, Path]] = []
    n = 0
    shrunk_corr: Optional[Failure] = None
    if not failures and corr_failures:
        # only the correspondence is broken so far: search the neighbourhood of the disagreements (their shrink
        # candidates) for an input on which the property itself fails
        spot: List[Failure] = []
        for cf in corr_failures[:12]:
            got = shrink_failure(prop, cf, budget=120, spec_spot=spot)
            shrunk_corr = shrunk_corr or got
            if spot:
                failures.append(spot[0])
                break
    if failures:
        f = shrink_failure(prop, failures[0])
        n += 1
        path = write_replay(prop.ID, seed, n, {
            "property": prop.ID, "kind": f.kind, "seed": seed, "tier": tier, "case": f.case,
            "implementation_output": f.obs, "lean_output": f.drv, "detail": f.detail,
            "proofs_ok": status.ok, "broken": status.broken_items(),
            "other_failures": len(failures) - 1})
        violations.append(("", path))
    elif corr_failures or not status.ok:
        # correspondence or proof obligation broken, no spec-violating input found
        n += 1
        payload: Dict[str, Any] = {"property": prop.ID, "seed": seed, "tier": tier,
                                   "proofs_ok": status.ok, "broken": status.broken_items(),
                                   "search": {"evaluations": evaluations, "deep": deep}}
        if corr_failures:
            f = shrunk_corr or shrink_failure(prop, corr_failures[0])
            payload.update({"kind": "correspondence", "case": f.case, "implementation_output": f.obs,
                            "lean_output": f.drv, "detail": f.detail,
                            "correspondence_failures": len(corr_failures)})
        else:
            payload.update({"kind": "proof-obligation", "detail": "; ".join(status.broken_items())[:2000],
                            "build_log_tail": status.build_log[-3000:]})
        path = write_replay(prop.ID, seed, n, payload)
        violations.append((" no-failing-input-found", path))

    for kid, f in sorted(known_seen.items()):
        entry = known.get(kid)
        if entry and entry.get("status", "open") == "open":
            print(f"KNOWN-FINDING: property={prop.ID} {kid}: {entry.get('what', '')}")
        else:
            # a class the judge names but the file does not list (or lists as fixed): a violation
            n += 1
            path = write_replay(prop.ID, seed, n, {
                "property": prop.ID, "kind": "spec", "seed": seed, "case": f.case,
                "implementation_output": f.obs, "lean_output": f.drv,
                "detail": f"{kid} ({'fixed entry has returned' if entry else 'not listed'}): {f.detail}"})
            violations.append(("", path))

    wall = time.time() - t0
    trusted = ["Lean 4.33.0 kernel (lake build; leanchecker re-check in the thorough tier)",
               "axioms used by the property theorems: " + (", ".join(sorted({a for ax in status.axioms.values() for a in ax})) or "none"),
               "no native_decide / bv_decide / implemented_by / unsafe / sorry (grep + #print axioms each run)",
               "hand-written Lean model tied to /repo by the differential correspondence in this file's counts",
               "harness generators/adapters/canonicalisers (harness/props/%s.py)" % prop.ID.lower()] + prop.TRUSTED
    coverage: Dict[str, Any] = {
        "obligations": max(len(status.theorems), 1),
        "discharged": len([t for t in status.theorems if t in status.axioms and t not in status.bad_axioms]) if status.built else 0,
        "checker_cmd": f"cd lean && lake build ASV.Props.{prop.ID} && lake env lean .lake/audit_{prop.ID}.lean"
                       + (" && lake env leanchecker ASV.Props.%s" % prop.ID if tier == "thorough" else ""),
        "trusted_base": trusted,
        "theorems": status.theorems,
        "evaluations": evaluations,
        "distinct_nontrivial": len(nontrivial_keys),
        "in_proved_scope": in_scope_n,
        "rule": prop.RULE,
        "samples": samples or [{"note": "no non-trivial sample recorded"}],
        "tags": dict(sorted(tags.items())),
        "shape_guard_changed": changed,
        "deep_search": deep,
        "known_findings_seen": sorted(known_seen),
        "correspondence_failures": len(corr_failures) + corr_overflow[0],
        "spec_failures": len(failures),
        "exhaustive": bool(getattr(prop, "exhaustive_done", False)),
    }
    if getattr(prop, "extra_coverage", None):
        coverage.update(prop.extra_coverage)
    evidence = {
        "property_id": prop.ID, "tier": tier, "seed": seed, "level": "proof", "coverage": coverage,
        "assumptions": trusted, "wall_s": round(wall, 2), "violations": len(violations),
    }
    ev_dir = VERIF / "evidence"
    ev_dir.mkdir(exist_ok=True)
    (ev_dir / f"{prop.ID}.json").write_text(json.dumps(evidence, indent=1, default=str) + "\n")

    print(f"{prop.ID} tier={tier} seed={seed}: theorems {coverage['discharged']}/{len(status.theorems)} "
          f"axioms-ok={not status.bad_axioms} cases={evaluations} nontrivial={len(nontrivial_keys)} "
          f"corr-fail={len(corr_failures)} spec-fail={len(failures)} shape-changed={len(changed)} "
          f"wall={wall:.1f}s")
    if not status.ok:
        for item in status.broken_items():
            print("  BROKEN:", item)
    for suffix, path in violations:
        print(f"VIOLATION property={prop.ID} replay={path}{suffix}")
    return 1 if violations else 0


def do_replay(prop: Property, path: str) -> int:
    data = json.loads(Path(path).read_text())
    case = data.get("case")
    if case is None:
        print(json.dumps(data, indent=1)[:4000])
        print("replay names a broken proof obligation / correspondence; no concrete case stored")
        return 1
    (case, obs, drv, j), = evaluate(prop, [case])
    print("case:", json.dumps(case)[:3000])
    print("implementation:", json.dumps(obs, default=str)[:3000])
    print("lean:", json.dumps(drv)[:3000])
    print(f"correspondence_ok={j.corr_ok} spec_ok={j.spec_ok} in_scope={j.in_scope} known={j.known} {j.detail}")
    if not j.spec_ok or not j.corr_ok:
        print(f"VIOLATION property={prop.ID} replay={path}" + ("" if not j.spec_ok else " no-failing-input-found"))
        return 1
    return 0
